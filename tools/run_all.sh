#!/bin/bash
# Run every claimed check (quick tier by default) in /verif against /repo and report exit codes; evidence is rewritten.
cd "$(dirname "$0")/.."
TIER=${1:-quick}
for p in $(python3 -c "import json; print(' '.join(c['property_id'] for c in json.load(open('MANIFEST.json'))['checks']))"); do
  s=$(date +%s)
  out=$(./check $p --tier $TIER 2>&1 | tail -1)
  echo "$p rc=${PIPESTATUS[0]} $(( $(date +%s) - s ))s :: $out"
done
