#!/usr/bin/env python3
"""Build the prompts for a round of independently seeded changes (sub-agents that see only a property's text).
Usage: tools/mk_seed_prompts.py <round> <id> [<id> ...]
Writes /tmp/agent_prompt<round>_<id>.txt and creates the detached scratch worktree /tmp/wt<round>_<id> of /repo.
The base text is /tmp/agent_prompt.txt when present, else the copy kept next to this script; nothing from /verif
other than the one-line summaries of earlier seeded changes (so that a later round does not repeat them) is quoted."""
import glob
import json
import os
import subprocess
import sys

ROOT = os.path.dirname(os.path.dirname(os.path.abspath(__file__)))
rnd = sys.argv[1]
ids = sys.argv[2:]
base = open(os.path.join(ROOT, "tools", "seed_prompt_base.txt")).read()
props = {}
for l in open(os.path.join(ROOT, "properties.jsonl")):
    d = json.loads(l)
    props[d["id"]] = d
metas = []
for d in sorted(glob.glob(os.path.join(ROOT, "seeded", "*"))):
    try:
        m = json.load(open(os.path.join(d, "meta.json")))
        metas.append((m.get("property"), (m.get("summary") or "")))
    except Exception:
        pass


def prop_text(d):
    out = [f"{d['id']} - {d.get('title', '')}", ""]
    for k in d:
        if k in ("id", "title"):
            continue
        v = d[k]
        out.append(f"{k.upper().replace('_', ' ')}: {v if isinstance(v, str) else json.dumps(v)}")
        out.append("")
    return "\n".join(out)


for pid in ids:
    wt = f"/tmp/wt{rnd}_{pid}"
    pf = os.path.join(ROOT, "tools", "seed_props", f"prop_{pid}.txt")
    txt = base.replace("WORKTREE", wt).replace("PROPERTY_TEXT", open(pf).read() if os.path.exists(pf) else prop_text(props[pid]))
    own = [s for p, s in metas if p == pid]
    other = [s for p, s in metas if p != pid]
    txt += (f"\n\nIMPORTANT - THIS IS A LATER ROUND (round {rnd}). Earlier bug authors already produced the following "
            "changes for this property; yours must be of a DIFFERENT kind (different mechanism, file or code path, "
            "different circumstance needed to manifest). Be creative and subtle: multi-step histories, unusual-but-legal "
            "API usage, interactions between two features, rarely used parameters, particular domain shapes, heuristic "
            "combinations, numbers of workers / message orders / timing / kinds of worker death, instance parameters of "
            "the shipped models:\n" + "\n".join(" - " + s[:260] for s in own)
            + "\nAlso avoid these ideas, already used for other properties: " + "; ".join(s[:100] for s in other))
    open(f"/tmp/agent_prompt{rnd}_{pid}.txt", "w").write(txt)
    if not os.path.isdir(wt):
        subprocess.run(["git", "-C", "/repo", "worktree", "add", "--detach", "-q", wt, "HEAD"], check=True)
    print(pid, wt, len(txt))
