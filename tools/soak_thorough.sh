#!/bin/bash
# Thorough tier of every claimed check on the unchanged tree (false-alarm hunt): the enumerated families run in full,
# the sampled ones under a wall-clock cap per check.  Usage: tools/soak_thorough.sh [cap seconds] [seed]
cd "$(dirname "$0")/.."
CAP=${1:-600}; export VERIF_SEED=${2:-0}
for p in C20 C13 C19 C15; do
  s=$(date +%s); out=$(nice ./check $p --tier thorough --no-evidence 2>&1 | tail -4)
  echo "== $p $(( $(date +%s) - s ))s"; echo "$out"
done
for p in C01 C02 C03 C04 C07 C08 C09 C10 C11 C12 C16 C17 C18; do
  s=$(date +%s); out=$(nice ./check $p --tier thorough --no-evidence --seconds $CAP 2>&1 | tail -4)
  echo "== $p $(( $(date +%s) - s ))s"; echo "$out"
done
