#!/usr/bin/env python3
"""Regenerate /verif/MANIFEST.json from the check registry (sim/cli.py) and the texts below."""
import json
import os
import sys

ROOT = os.path.dirname(os.path.dirname(os.path.abspath(__file__)))
sys.path.insert(0, ROOT)
from sim.cli import CHECKS  # noqa: E402

TEXT = {
    "C01": ("Seeded simulation of the real BacktrackSolver / MultiprocessingSolver (interpreted) over generated in-contract models x configurations x posting orders (x worker interleavings); every reported vector is judged by an independent ground-semantics reference. Sampling, not proof.", "4/C01"),
    "C02": ("Same simulated runs; the multiset of enumerated solutions must equal an independent enumeration of the cartesian product, for every configuration / posting order / partition sampled.", "4/C02"),
    "C03": ("Simulated optimisation runs (both directions, any objective variable, all configurations, 1..k simulated workers): result feasible, value = reference optimum, None iff infeasible, termination within a simulated-step budget.", "4/C03"),
    "C04": ("Bounded liveness in simulated steps (backward jumps in NuCS code objects): per-pass execution bound 2(P+1)(S+2), per-solver-call step budget two orders of magnitude above what terminating runs use; budget overruns are replayable violations.", "4/C04"),
    "C07": ("At every quiescent point of every simulated search (through pushes, pops, shaving probes, optimiser restarts) every disabled constraint is judged by the reference semantics on the whole current box; every 'entailed' answer is checked on all tuples of the returned box.", "4/C07"),
    "C08": ("The only check that takes verdicts from seeded permutations of the wake-up order: contraction, shadow re-execution fixpoint at every pass end, equality with the reference greatest fixpoint when all executions were observed exact.", "4/C08"),
    "C09": ("Random legal push/pop sequences on the real stack arrays through the real value heuristics and backtrack against a reference stack (partition, announced events, restored domains and flags), plus the same oracle inside every simulated search.", "4/C09"),
    "C10": ("Speculative-probe / rollback invariants monitored around every real call of the shaving algorithm and of each probe in simulated searches, plus differential results against plain bound consistency via the reference.", "4/C10"),
    "C11": ("The real MultiprocessingSolver parent loop runs against in-process SimProcess/SimQueue fakes; a seeded scheduler decides every delivery, latency, stall and late pickle; results, return point and aggregated statistics are compared with the reference reducer. Calls of one instance are chained (earlier calls completed, abandoned or failed); a queue created by the constructor is simulated too and carries what earlier calls left in it.", "4/C11"),
    "C12": ("Input sweep of Problem.split executed through the multi-process simulation: original unchanged, parts differ in one domain, each part solved by a simulated worker under a step budget, disjoint union equals the reference.", "4/C12"),
    "C13": ("Seeded meaning-preserving rewrites of generated and shipped models; solution sets / optima equal after the inverse renaming. Metamorphic relations with seeded generation, replay and minimisation.", "4/C13"),
    "C15": ("Seeded operation histories in one interpreter compared with clean-room executions, in interpreted and compiled mode, twice; histories include reused problem objects, registrations, abandoned enumerations, dirty never-written memory, caller-owned parameter arrays refilled after construction, and models whose parameters and domain bounds approach 32 bits (where the two modes' integer widths differ).", "4/C15"),
    "C16": ("Two bounds-checking executors under the same seeded workloads: interpreted mode (any exception from a NuCS frame on an in-contract simulated run is a violation; sizes biased to what scratch arrays are sized from; the worker-side loops of the multiprocessing solver through the simulated processes) and the JIT-compiled engine built with numba's bounds checking in a sacrificial interpreter (index errors raised behind function addresses are collected through sys.unraisablehook; death by signal is an abort). Monitor-strength claim only.", "4/C16"),
    "C17": ("Interposed event log of each simulated run; each of the 13 counters must equal the corresponding event count (every documented reading accepted), conservation laws for exhaustive enumeration; per-worker laws and sums through the simulated multiprocessing solver.", "4/C17"),
    "C18": ("Every (worker, death point, death kind) of bounded scenarios is enumerated in the process simulator, seeded sampling beyond; the parent call must return or raise within bounded virtual time - a SimDeadlock is the hang.", "4/C18"),
    "C19": ("Sweep of stack heights x required depths x heuristics x consistency algorithm and of sizes around 2^8/2^16, each point compiled in a sacrificial interpreter and interpreted: error/refusal or reference-equal result.", "4/C19"),
    "C20": ("Shipped models as workloads under a configuration swarm and 1..k simulated workers; definition-level validator on every solution, literature counts and optima.", "4/C20"),
}
TECH = {
    "C01": "deterministic simulation (seeded choice trace) + reference-model oracle",
    "C02": "deterministic simulation + reference enumeration, differential across configurations/orders",
    "C03": "deterministic simulation of the restart history + reference optimum + simulated-step liveness budget",
    "C04": "deterministic simulation with a simulated-step clock (bounded liveness)",
    "C07": "deterministic simulation, invariant at every quiescent point vs reference semantics",
    "C08": "deterministic simulation with a seeded wake-order scheduler (schedule exploration) + shadow re-execution",
    "C09": "deterministic simulation: stateful push/pop machine vs reference stack",
    "C10": "deterministic simulation, probe/rollback invariants + differential vs bound consistency",
    "C11": "deterministic simulation of worker processes and queue (seeded interleavings, latencies, late pickling)",
    "C12": "deterministic simulation (split sweep executed through simulated workers)",
    "C13": "seeded metamorphic rewriting inside the simulator (replayable, minimised)",
    "C15": "deterministic simulation of process histories vs clean-room runs, two execution modes",
    "C16": "deterministic simulation, interpreted mode and a bounds-checked compiled build as bounds-checking monitors",
    "C17": "deterministic simulation, event-log conservation laws",
    "C18": "fault injection in the process simulator: enumerated crash points + seeded sampling, virtual-time deadlock detection",
    "C19": "fault enumeration of capacity exhaustion (stack height / index widths), compiled in sacrificial subprocesses",
    "C20": "deterministic simulation: shipped models under configuration swarm and simulated workers with validators",
}
NA = [
    {"property_id": "C05", "reason": "one filtering call is a pure function of (box, parameters): no schedule, fault, history or clock to simulate; deciding it is box enumeration, a different technique (DESIGN.md 4/C05)"},
    {"property_id": "C06", "reason": "a single call on a point box is a pure function of its input; nothing for a simulator to schedule or fault (DESIGN.md 4/C06)"},
    {"property_id": "C14", "reason": "exactness / idempotence of one filtering call is a property of a pure function of its input (its schedule consequence is decided under C08 clause 3) (DESIGN.md 4/C14)"},
]
PENDING_REASON = "check not built yet in this round (planned, see DESIGN.md 7); not claimed until it exists"


def main():
    checks = []
    for pid in sorted(CHECKS):
        spec = CHECKS[pid]
        text, ref = TEXT[pid]
        fams = "+".join(s[0] for s in spec["stages"])
        checks.append(
            {
                "property_id": pid,
                "quick_cmd": f"./check {pid} --tier quick",
                "thorough_cmd": f"./check {pid} --tier thorough",
                "evidence_file": f"/verif/evidence/{pid}.json",
                "replay_cmd_template": f"./check {pid} --replay {{path}}",
                "engine": fams,
                "level_claimed": {"category": spec["level"], "text": text, "design_ref": f"DESIGN.md section {ref}"},
                "level_note": "Trusted base: the reference semantics in sim/refmodel.py (written from docs/source/reference.rst), the interposition wrappers (behaviour-preserving, self-tested for determinism), interpreted execution standing for the compiled engine (sampled by C15). Known findings listed in known_findings.json are reported as KNOWN-FINDING and their input region is excluded from generation.",
                "technique": TECH[pid],
            }
        )
    na = list(NA)
    all_ids = [f"C{i:02d}" for i in range(1, 21)]
    for pid in all_ids:
        if pid not in CHECKS and pid not in [x["property_id"] for x in NA]:
            na.append({"property_id": pid, "reason": PENDING_REASON})
    man = {
        "version": 1,
        "setup_cmd": "./setup.sh",
        "hooks": {
            "guard": "NUCS_VERIF",
            "enable": "no source hook exists: checks run /repo's working tree with NUMBA_DISABLE_JIT=1 (every @njit function is plain Python, module globals and dispatch lists are the seams) and replace the module globals Process/Queue of nucs.solvers.multiprocessing_solver at run time; NUCS_VERIF=1 is exported by ./check for future guarded hooks",
            "baseline_off_cmd": "cd /repo && /venv/bin/python -m pytest -ra -q -p no:cacheprovider --timeout=900 --continue-on-collection-errors",
            "source_commits": [],
            "add_only": True,
        },
        "engines": [
            {"name": "e1", "path": "sim/families/e1_engine.py", "serves_properties": ["C01", "C02", "C03", "C04", "C07", "C08", "C09", "C10", "C16", "C17"], "kind_free_text": "engine-sim: generated model x configuration x posting order x wake order through the real BacktrackSolver (interpreted) with interposed monitors"},
            {"name": "e1c13", "path": "sim/families/e1_rewrite.py", "serves_properties": ["C13"], "kind_free_text": "metamorphic rewrites of generated/shipped models"},
            {"name": "e2", "path": "sim/families/e2_mp.py", "serves_properties": ["C11", "C12", "C18", "C01", "C02", "C03", "C17", "C16"], "kind_free_text": "mp-sim: real MultiprocessingSolver over SimProcess/SimQueue with virtual clock, seeded deliveries, crashes, stalls, late pickles"},
            {"name": "e3", "path": "sim/families/e3_cpstack.py", "serves_properties": ["C09", "C07", "C16"], "kind_free_text": "cp-machine: random push/pop sequences on the real stack arrays vs reference stack"},
            {"name": "e4", "path": "sim/families/e4_history.py", "serves_properties": ["C15"], "kind_free_text": "history-sim: operation sequences vs clean-room, interpreted and compiled"},
            {"name": "e5", "path": "sim/families/e5_capacity.py", "serves_properties": ["C19"], "kind_free_text": "capacity-sim: compiled sacrificial subprocess sweep"},
            {"name": "e6", "path": "sim/families/e6_models.py", "serves_properties": ["C20", "C13"], "kind_free_text": "models-sim: shipped models with validators"},
            {"name": "e7", "path": "sim/families/e7_boundscheck.py", "serves_properties": ["C16"], "kind_free_text": "compiled bounds-checked executor: the E1 workloads through the JIT-compiled engine with NUMBA_BOUNDSCHECK=1 in a persistent sacrificial interpreter"},
        ],
        "checks": checks,
        "notes": "Technique: deterministic simulation with fault injection (own choice-trace kernel, seeded scheduler, virtual clock, in-process fakes for processes and queue). See DESIGN.md. Fixes of genuine defects are 'fix:' commits in /repo, recorded in known_findings.json ('fixed').",
        "not_applicable": na,
    }
    with open(os.path.join(ROOT, "MANIFEST.json"), "w") as f:
        json.dump(man, f, indent=1)
    print(f"MANIFEST.json: {len(checks)} checks, {len(na)} not_applicable")


if __name__ == "__main__":
    main()
