#!/venv/bin/python
"""Reach survey: which lines of nucs/ do the in-process simulation families (e1, e1c13, e2, e3) execute?

Usage: tools/reach.py [runs per stage, default 1500] [repo, default /repo]
Prints, per source file under nucs/propagators, nucs/heuristics, nucs/solvers and nucs/problems/problem.py, the lines
never executed.  A development aid in the sense of DESIGN.md ("measure reach"): a line stuck at zero means that the
generator or the fault mix has to change.  It decides nothing and is not part of any registered check."""
import os
import sys

ROOT = os.path.dirname(os.path.dirname(os.path.abspath(__file__)))
if os.environ.get("VERIF_CHILD") != "1":
    env = dict(os.environ)
    env.update(VERIF_CHILD="1", PYTHONHASHSEED="0", NUMBA_DISABLE_JIT="1", PYTHONDONTWRITEBYTECODE="1", NUCS_VERIF="1")
    os.execve(sys.executable, [sys.executable, os.path.abspath(__file__)] + sys.argv[1:], env)

runs = int(sys.argv[1]) if len(sys.argv) > 1 else 1500
repo = sys.argv[2] if len(sys.argv) > 2 else os.environ.get("VERIF_REPO", "/repo")
sys.path.insert(0, ROOT)
sys.path.insert(0, repo)
import logging  # noqa: E402

logging.disable(logging.CRITICAL)
import coverage  # noqa: E402

cov = coverage.Coverage(data_file=None, include=[repo + "/nucs/*"], omit=[repo + "/nucs/examples/*"])
cov.start()
from sim import runner  # noqa: E402
from sim.cli import CHECKS  # noqa: E402

stages = []
for prop, spec in sorted(CHECKS.items()):
    for st in spec["stages"] if isinstance(spec, dict) else spec:
        fam, focus = st[0], st[1]
        if fam in ("e1", "e1c13", "e2", "e3"):
            stages.append((fam, focus, dict(st[4]) if len(st) > 4 else {}))
for fam, focus, params in stages:
    bad = 0
    for i in range(runs):
        s = runner.run_seed(20260929, fam, focus, i)
        try:
            res = runner.execute(fam, focus, dict(params, run_index=i), seed=s)
            bad += bool([v for v in res["violations"] if v["property"] == focus])
        except Exception as e:  # noqa
            print("harness", fam, focus, i, type(e).__name__, e)
    print(f"# {fam}/{focus}: {runs} runs, {bad} with violations", flush=True)
cov.stop()
import io  # noqa: E402

buf = io.StringIO()
cov.report(show_missing=True, file=buf, skip_covered=False)
print(buf.getvalue())
