#!/bin/bash
# Run the pinned test suite of a nucs tree (default /repo) with a FRESH numba cache (stale caches of functions
# inlined across files would hide a broken repair).  Usage: tools/baseline.sh [repo_dir]
REPO=${1:-/repo}
CACHE=$(mktemp -d /tmp/nbcache.XXXXXX)
cd "$REPO" || exit 2
env -u NUMBA_DISABLE_JIT -u NUCS_VERIF NUMBA_CACHE_DIR="$CACHE" /venv/bin/python -m pytest -q -p no:cacheprovider --timeout=900 --continue-on-collection-errors -x 2>&1 | tail -5
rc=${PIPESTATUS[0]}
rm -rf "$CACHE"
exit $rc
