#!/usr/bin/env python3
"""Generate /verif/mutants/*.patch from textual (file, old, new) specs against /repo's HEAD (planted bugs for the
sensitivity self-test; never applied to /repo)."""
import os, subprocess, sys, tempfile, shutil

ROOT = os.path.dirname(os.path.dirname(os.path.abspath(__file__)))
REPO = os.environ.get("VERIF_REPO", "/repo")
M = [
 # id, property, file, old, new
 ("C01-get-solution-max", "C01", "nucs/solvers/solver.py", "shr_domains_stack[stacks_top[0], dom_indices_arr, MIN] + dom_offsets_arr", "shr_domains_stack[stacks_top[0], dom_indices_arr, MIN] + dom_offsets_arr[0]"),
 ("C01-skip-self-again", "C01", "nucs/solvers/bound_consistency_algorithm.py", "prop_idx = pop_propagator(triggered_propagators, -1)", "prop_idx = pop_propagator(triggered_propagators, prop_idx)"),
 ("C02-min-value-alt", "C02", "nucs/heuristics/min_value_dom_heuristic.py", "shr_domains_stack[cp_cur_idx, dom_idx, MIN] = value + 1", "shr_domains_stack[cp_cur_idx, dom_idx, MIN] = value"),
 ("C02-alldiff-hall", "C02", "nucs/propagators/alldifferent_propagator.py", "        if d[z] + bounds[y] < bounds[z]:  # moved", "        if d[z] + bounds[y] <= bounds[z]:  # moved"),
 ("C03-decrease-max", "C03", "nucs/solvers/solver.py", "MAX] = value - 1 - dom_offsets_arr[var_idx]", "MAX] = value - dom_offsets_arr[var_idx]"),
 ("C03-increase-min-offset", "C03", "nucs/solvers/solver.py", "MIN] = value + 1 - dom_offsets_arr[var_idx]", "MIN] = value + 1 + dom_offsets_arr[var_idx]"),
 ("C04-ground-always", "C04", "nucs/solvers/bound_consistency_algorithm.py", "            if events != 0:\n                if shr_domains_stack[top, shr_domain_idx, MIN] > ", "            if shr_domains_stack[top, shr_domain_idx, MIN] == shr_domains_stack[top, shr_domain_idx, MAX]:\n                events |= EVENT_MASK_GROUND\n            if events != 0:\n                if shr_domains_stack[top, shr_domain_idx, MIN] > "),
 ("C04-max-regret-ties", "C04", "nucs/heuristics/max_regret_var_heuristic.py", "max_regret = -1 ", "max_regret = 0 "),
 ("C07-affine-leq-entail", "C07", "nucs/propagators/affine_leq_propagator.py", "if domain_sum_min >= 0:", "if domain_sum_min >= -1:"),
 ("C07-max-leq-entail", "C07", "nucs/propagators/max_leq_propagator.py", "if np.max(x[:, MAX]) <= y[MIN]:", "if np.max(x[:, MIN]) <= y[MIN]:"),
 ("C07-entail-level0", "C07", "nucs/solvers/bound_consistency_algorithm.py", "not_entailed_propagators_stack[top, prop_idx] = False", "not_entailed_propagators_stack[:, prop_idx] = False"),
 ("C08-affine-leq-trigger", "C08", "nucs/propagators/affine_leq_propagator.py", "        elif c > 0:\n            triggers[i] = EVENT_MASK_MIN", "        elif c > 0:\n            triggers[i] = EVENT_MASK_MAX"),
 ("C08-no-add-on-max", "C08", "nucs/solvers/bound_consistency_algorithm.py", "                shr_domains_stack[top, shr_domain_idx, MAX] = shr_domain_max\n                events |= EVENT_MASK_MAX", "                shr_domains_stack[top, shr_domain_idx, MAX] = shr_domain_max"),
 ("C08-max-leq-weaker", "C08", "nucs/propagators/max_leq_propagator.py", "        x[i, MAX] = min(x[i, MAX], y[MAX])\n        if x[i, MAX] < x[i, MIN]:", "        if min(x[i, MAX], y[MAX]) < x[i, MIN]:"),
 ("C08-count-eq-weaker", "C08", "nucs/propagators/count_eq_propagator.py", "    if count_max == counter[MIN]:  # we cannot have more domains different from a", "    if count_max == counter[MIN] and count_min > 0:  # we cannot have more domains different from a"),
 ("C09-split-low-alt", "C09", "nucs/heuristics/split_low_dom_heuristic.py", "shr_domains_stack[cp_cur_idx, dom_idx, MIN] = value + 1", "shr_domains_stack[cp_cur_idx, dom_idx, MIN] = value"),
 ("C09-value-events-level", "C09", "nucs/heuristics/value_dom_heuristic.py", "dom_update_stack[cp_cur_idx + 1, DOM_UPDATE_EVENTS] = (\n        EVENT_MASK_MAX_GROUND", "dom_update_stack[cp_cur_idx + 1, DOM_UPDATE_EVENTS] = (\n        EVENT_MASK_MAX"),
 ("C09-backtrack-root", "C09", "nucs/solvers/choice_points.py", "    if stacks_top[0] == 0:\n        return False", "    if stacks_top[0] == 0:\n        return True"),
 ("C10-undo-sign", "C10", "nucs/solvers/shaving_consistency_algorithm.py", "+= 1 if bound == MAX else -1", "+= -1 if bound == MAX else 1"),
 ("C10-probe-no-pop", "C10", "nucs/solvers/shaving_consistency_algorithm.py", "        has_shaved = True\n    else:", "        has_shaved = True\n        return has_shaved\n    else:"),
 ("C11-lt-gt", "C11", "nucs/solvers/multiprocessing_solver.py", 'return self.optimize(variable_idx, "minimize_and_queue", operator.lt)', 'return self.optimize(variable_idx, "minimize_and_queue", operator.gt)'),
 ("C11-stats-only-solutions", "C11", "nucs/solvers/multiprocessing_solver.py", "            self.statistics[proc_idx] = statistics\n            if solution is None:\n                running[proc_idx] = False\n                nb -= 1\n            else:\n                yield solution", "            if solution is None:\n                running[proc_idx] = False\n                nb -= 1\n            else:\n                self.statistics[proc_idx] = statistics\n                yield solution"),
 ("C12-remainder", "C12", "nucs/problems/problem.py", "(0 if split_idx < shr_dom_sz % split_nb else 1)", "(0 if split_idx <= shr_dom_sz % split_nb else 1)"),
 ("C12-shallow", "C12", "nucs/problems/problem.py", "problem = copy.deepcopy(self)", "problem = copy.copy(self)"),
 ("C17-filter-nb-late", "C17", "nucs/solvers/bound_consistency_algorithm.py", "        statistics[STATS_IDX_PROPAGATOR_FILTER_NB] += 1\n        prop_var_start", "        prop_var_start"),
 ("C17-depth-before", "C17", "nucs/solvers/backtrack_solver.py", "            if stacks_top[0] > statistics[STATS_IDX_SOLVER_CHOICE_DEPTH]:\n                statistics[STATS_IDX_SOLVER_CHOICE_DEPTH] = stacks_top[0]", "            if stacks_top[0] - 1 > statistics[STATS_IDX_SOLVER_CHOICE_DEPTH]:\n                statistics[STATS_IDX_SOLVER_CHOICE_DEPTH] = stacks_top[0] - 1"),
 ("C18-no-poll", "C18", "nucs/solvers/multiprocessing_solver.py", "            return solutions.get(timeout=POLL_TIMEOUT)\n        except Empty:\n            dead", "            return solutions.get()\n        except Empty:\n            dead"),
 ("C18-poll-no-drain", "C11", "nucs/solvers/multiprocessing_solver.py", "                try:  # the last messages of a terminated process may have arrived since the timeout\n                    return solutions.get(timeout=POLL_TIMEOUT)\n                except Empty:\n                    raise RuntimeError", "                if True:\n                    raise RuntimeError"),
 ("C15-triggers-uninit", "C15", "nucs/propagators/affine_leq_propagator.py", "triggers = np.zeros(n, dtype=np.uint8)", "triggers = np.empty(n, dtype=np.uint8)"),
 ("C15-cp-init-flags", "C15", "nucs/solvers/choice_points.py", "    not_entailed_propagators_stack[0] = True\n", ""),
 ("C18-qsize-gate", "C18", "nucs/solvers/multiprocessing_solver.py", "            if len(dead) > 0:\n                try:  # the last messages of a terminated process may have arrived since the timeout\n                    return solutions.get(timeout=POLL_TIMEOUT)\n                except Empty:\n                    raise RuntimeError", "            if len(dead) > 0 and solutions.qsize() == 0:\n                if True:\n                    raise RuntimeError"),
 ("C11-stats-inplace", "C11", "nucs/solvers/multiprocessing_solver.py", "def sum_stats(stats: List[Any], index: int) -> int:\n    return sum(int(s[index]) for s in stats)", "def sum_stats(stats: List[Any], index: int) -> int:\n    for s in stats[1:]:\n        stats[0][index] += s[index]\n    return int(stats[0][index])"),
 ("C15-uint8-underflow", "C15", "nucs/solvers/choice_points.py", "    if stacks_top[0] == 0:\n        return False", "    if stacks_top[0] - 1 < 0:  # uint8: wraps as a numpy scalar, widens when compiled\n        return False"),
 ("C16-alldiff-bounds", "C16", "nucs/propagators/alldifferent_propagator.py", "bounds_nb = 2 * n + 2", "bounds_nb = 2 * n + 1"),
]

def main():
    os.makedirs(os.path.join(ROOT, "mutants"), exist_ok=True)
    for f in os.listdir(os.path.join(ROOT, "mutants")):
        if f.endswith(".patch"):
            os.remove(os.path.join(ROOT, "mutants", f))
    ok = 0
    for mid, prop, path, old, new in M:
        src = subprocess.run(["git", "-C", REPO, "show", f"HEAD:{path}"], capture_output=True, text=True, check=True).stdout
        if src.count(old) != 1:
            print(f"!! {mid}: pattern occurs {src.count(old)} times in {path}")
            continue
        with tempfile.TemporaryDirectory() as td:
            a = os.path.join(td, "a", path); b = os.path.join(td, "b", path)
            os.makedirs(os.path.dirname(a)); os.makedirs(os.path.dirname(b))
            open(a, "w").write(src); open(b, "w").write(src.replace(old, new))
            d = subprocess.run(["diff", "-u", f"a/{path}", f"b/{path}"], cwd=td, capture_output=True, text=True).stdout
        open(os.path.join(ROOT, "mutants", f"{mid}.patch"), "w").write(f"# property: {prop}\n" + d)
        ok += 1
    print(f"{ok}/{len(M)} mutants written")

if __name__ == "__main__":
    main()
