#!/bin/bash
# Intake of a seeded change produced by a sub-agent in a scratch worktree.
#   tools/seeded_intake.sh <worktree> <seed-id> <property> [more properties to run...]
# Confirms: existing tests pass with the change; demo fails with it and passes without it; then runs the owning
# checks against the changed tree (VERIF_REPO=<worktree>) and stores everything under /verif/seeded/<seed-id>/.
WT=$1; SID=$2; shift 2; PROPS="$@"
ROOT=$(cd "$(dirname "$0")/.." && pwd)
OUT=$ROOT/seeded/$SID
mkdir -p "$OUT"
cd "$WT" || exit 2
git diff -- nucs > "$OUT/patch.diff"
[ -s "$OUT/patch.diff" ] || { echo "no diff in $WT"; exit 2; }
cp demo.py "$OUT/demo.py" 2>/dev/null
# the worktree was created when the round started; /repo may have received `fix:` commits since: move the change onto
# /repo's HEAD so that the checks judge the change and not a defect repaired in the meantime
HEAD_REPO=$(git -C /repo rev-parse HEAD)
if [ "$(git rev-parse HEAD)" != "$HEAD_REPO" ]; then
  git checkout -q -- nucs && git checkout -q --detach "$HEAD_REPO" && git apply "$OUT/patch.diff" || { echo "change does not apply on /repo HEAD"; exit 2; }
  git diff -- nucs > "$OUT/patch.diff"
  echo "== moved onto $HEAD_REPO"
fi
DEMO_ENV="NUMBA_DISABLE_JIT=1"
if grep -q '"demo_cmd"' meta.json 2>/dev/null && ! grep -q 'NUMBA_DISABLE_JIT=1' meta.json; then DEMO_ENV=""; fi
echo "== tests with the change"
"$ROOT/tools/baseline.sh" "$WT" > "$OUT/tests.log" 2>&1; TRC=$?
tail -1 "$OUT/tests.log"
echo "== demo with the change"
( cd "$WT" && env $DEMO_ENV timeout 900 /venv/bin/python demo.py > "$OUT/demo_with.log" 2>&1 ); D1=$?
echo "exit $D1"
# not `git stash`: the stash is shared by all worktrees of a repository, and intakes running side by side in different
# worktrees popped each other's changes (round 9)
git checkout -q -- nucs
echo "== demo without the change"
( cd "$WT" && env $DEMO_ENV timeout 900 /venv/bin/python demo.py > "$OUT/demo_without.log" 2>&1 ); D0=$?
echo "exit $D0"
git apply "$OUT/patch.diff"
git diff --quiet -- nucs && { echo "diff lost!"; exit 2; }
git diff -- nucs | cmp -s - "$OUT/patch.diff" || { echo "diff differs from the saved patch!"; exit 2; }
find "$WT" -name "__pycache__" -type d -prune -exec rm -rf {} + 2>/dev/null
RES=""
for P in $PROPS; do
  echo "== check $P against the changed tree"
  ( cd "$ROOT" && VERIF_REPO="$WT" timeout 1500 ./check $P --no-evidence > "$OUT/check_$P.log" 2>&1 ); RC=$?
  tail -3 "$OUT/check_$P.log" | cut -c1-400
  RES="$RES \"$P\": $RC,"
done
python3 - "$WT" "$OUT" "$TRC" "$D1" "$D0" "{${RES%,}}" <<'EOF'
import json, sys, os
wt, out, trc, d1, d0, res = sys.argv[1:7]
meta = {}
try:
    meta = json.load(open(os.path.join(wt, "meta.json")))
except Exception:
    pass
meta["confirmed_by_me"] = {"tests_pass_with_change": trc == "0", "demo_exit_with_change": int(d1), "demo_exit_without_change": int(d0)}
meta["check_exit_codes_on_changed_tree"] = json.loads(res)
meta["what_i_ran"] = "tools/seeded_intake.sh: tools/baseline.sh <worktree>; demo.py with and without the change (git stash); VERIF_REPO=<worktree> ./check <property>"
json.dump(meta, open(os.path.join(out, "meta.json"), "w"), indent=1)
print(json.dumps(meta["confirmed_by_me"]), meta["check_exit_codes_on_changed_tree"])
EOF
