#!/usr/bin/env python3
"""Re-run the owning checks against every seeded change kept under /verif/seeded/<id>/ (patch.diff applied to a
scratch copy of /repo's nucs tree, never to /repo) and write /verif/seeded/SUMMARY.json.
Usage: tools/seeded_rerun.py [id-substring]"""
import glob
import json
import os
import re
import shutil
import subprocess
import sys
import tempfile
import time

ROOT = os.path.dirname(os.path.dirname(os.path.abspath(__file__)))
REPO = "/repo"


def summary_from_metas():
    """Rebuild seeded/SUMMARY.json from the 'rerun' records kept in every meta.json (after partial re-runs)."""
    rows = []
    for d in sorted(glob.glob(os.path.join(ROOT, "seeded", "*"))):
        if not os.path.isdir(d):
            continue
        meta = json.load(open(os.path.join(d, "meta.json")))
        res = meta.get("rerun") or {p: {"exit": rc, "oracle": None, "wall_s": None} for p, rc in (meta.get("check_exit_codes_on_changed_tree") or {}).items()}
        rows.append({"seeded": os.path.basename(d), "property": meta.get("property"), "summary": meta.get("summary"), "checks": res,
                     "caught": any(v.get("exit") == 1 for v in res.values())})
    json.dump(rows, open(os.path.join(ROOT, "seeded", "SUMMARY.json"), "w"), indent=1)
    print(f"{len(rows)} seeded changes, {sum(1 for r in rows if r['caught'])} caught by at least one owning check")
    for r in rows:
        if not r["caught"]:
            print("NOT CAUGHT:", r["seeded"], r["checks"])


def main():
    if len(sys.argv) > 1 and sys.argv[1] == "--summary":
        return summary_from_metas()
    flt = sys.argv[1] if len(sys.argv) > 1 else ""
    rows = []
    for d in sorted(glob.glob(os.path.join(ROOT, "seeded", "*"))):
        if not os.path.isdir(d) or flt not in d:
            continue
        meta = json.load(open(os.path.join(d, "meta.json")))
        props = list(meta.get("check_exit_codes_on_changed_tree", {}).keys()) or [meta.get("property")]
        tmp = tempfile.mkdtemp(prefix="verif_seeded_", dir="/tmp")
        try:
            subprocess.run(["rsync", "-a", "--exclude", "__pycache__", REPO + "/nucs", tmp + "/"], check=True)
            r = subprocess.run(["patch", "-p1", "-s", "-d", tmp, "-i", os.path.join(d, "patch.diff")], capture_output=True, text=True)
            if r.returncode != 0:
                rows.append({"seeded": os.path.basename(d), "error": "patch does not apply to the current tree: " + r.stdout[-200:]})
                continue
            res = {}
            for p in props:
                env = dict(os.environ, VERIF_REPO=tmp)
                env.pop("VERIF_CHILD", None)
                t0 = time.time()
                c = subprocess.run([os.path.join(ROOT, "check"), p, "--no-evidence"], capture_output=True, text=True, env=env, cwd=ROOT, timeout=3000)
                m = re.search(r"oracle=([\w-]+)", c.stdout)
                res[p] = {"exit": c.returncode, "oracle": m.group(1) if m else None, "wall_s": round(time.time() - t0, 1)}
            meta["rerun"] = res
            json.dump(meta, open(os.path.join(d, "meta.json"), "w"), indent=1)
            rows.append({"seeded": os.path.basename(d), "property": meta.get("property"), "summary": meta.get("summary"), "checks": res})
            print(json.dumps(rows[-1])[:400], flush=True)
        finally:
            shutil.rmtree(tmp, ignore_errors=True)
    if not flt:
        json.dump(rows, open(os.path.join(ROOT, "seeded", "SUMMARY.json"), "w"), indent=1)


if __name__ == "__main__":
    main()
