#!/bin/bash
# Soak: every quick check under several VERIF_SEED values; any non-zero exit on the unchanged tree is a false alarm
# (or a new genuine defect) to triage.  Usage: tools/soak.sh <first seed> <count> [checks...]
cd "$(dirname "$0")/.."
S0=${1:-100}; N=${2:-5}; shift 2
CHECKS=${@:-$(python3 -c "import json; print(' '.join(c['property_id'] for c in json.load(open('MANIFEST.json'))['checks']))")}
for ((s=S0; s<S0+N; s++)); do
  for p in $CHECKS; do
    out=$(VERIF_SEED=$s ./check $p --no-evidence 2>&1 | tail -3)
    rc=$?
    line=$(echo "$out" | tail -1)
    echo "seed=$s $p :: $line"
    echo "$out" | grep -q VIOLATION && echo "$out"
  done
done
