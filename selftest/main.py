"""Self-tests of the machinery (not deciding checks): determinism, sensitivity (planted bugs)."""
from __future__ import annotations

import concurrent.futures as cf
import glob
import json
import os
import re
import shutil
import subprocess
import sys
import tempfile
import time

ROOT = os.path.dirname(os.path.dirname(os.path.abspath(__file__)))
REPO = os.environ.get("VERIF_REPO", "/repo")


def main(target, args, seed):
    if target == "selftest-sensitivity":
        return sensitivity(args, seed)
    if target == "selftest-determinism":
        return determinism(args, seed)
    if target == "selftest-stub-conformance":
        return stub_conformance(args, seed)
    print("unknown selftest", target)
    return 2


def scratch_copy(patch_path):
    d = tempfile.mkdtemp(prefix="verif_mut_", dir="/tmp")
    subprocess.run(["rsync", "-a", "--exclude", "__pycache__", "--exclude", ".git", REPO + "/nucs", d + "/"], check=True)
    r = subprocess.run(["patch", "-p1", "-s", "-d", d, "-i", patch_path], capture_output=True, text=True)
    if r.returncode != 0:
        shutil.rmtree(d, ignore_errors=True)
        raise RuntimeError(f"patch {patch_path} does not apply: {r.stdout} {r.stderr}")
    return d


def run_check(prop, repo, extra=(), timeout=3000):
    env = dict(os.environ)
    env.pop("VERIF_CHILD", None)
    env["VERIF_REPO"] = repo
    r = subprocess.run([os.path.join(ROOT, "check"), prop, "--no-evidence", *extra], capture_output=True, text=True,
                       env=env, timeout=timeout, cwd=ROOT)
    return r.returncode, r.stdout + r.stderr


def one_mutant(patch, only_prop=None, jobs=4):
    mid = os.path.basename(patch)[:-6]
    with open(patch) as f:
        prop = re.search(r"# property: (C\d+)", f.readline()).group(1)
    d = scratch_copy(patch)
    t0 = time.time()
    try:
        rc, out = run_check(prop, d, ["--jobs", str(jobs)])
        m = re.search(r"VIOLATION property=(C\d+) replay=(\S+)", out)
        replay_ok = None
        oracle = None
        if rc == 1 and m:
            mo = re.search(r"oracle=([\w-]+)", out)
            oracle = mo.group(1) if mo else None
            rc2, out2 = run_check(prop, d, ["--replay", m.group(2)])
            replay_ok = rc2 == 1 and "differs from the recorded run" not in out2
        return {"mutant": mid, "property": prop, "rc": rc, "caught": rc == 1 and bool(m), "oracle": oracle,
                "replay_reproduces": replay_ok, "wall_s": round(time.time() - t0, 1), "tail": out[-300:] if rc != 1 else ""}
    finally:
        shutil.rmtree(d, ignore_errors=True)


def sensitivity(args, seed):
    patches = sorted(glob.glob(os.path.join(ROOT, "mutants", "*.patch")))
    if args.stage:
        patches = [p for p in patches if args.stage in os.path.basename(p)]
    res = []
    with cf.ThreadPoolExecutor(max_workers=4) as ex:
        for r in ex.map(lambda p: one_mutant(p, jobs=4), patches):
            print(json.dumps(r), flush=True)
            res.append(r)
    missed = [r for r in res if not r["caught"]]
    bad_replay = [r for r in res if r["caught"] and not r["replay_reproduces"]]
    os.makedirs(os.path.join(ROOT, "evidence"), exist_ok=True)
    with open(os.path.join(ROOT, "evidence", "selftest-sensitivity.json"), "w") as f:
        json.dump({"mutants": res, "caught": len(res) - len(missed), "total": len(res)}, f, indent=1)
    print(f"sensitivity: {len(res) - len(missed)}/{len(res)} caught; replays failing to reproduce: {len(bad_replay)}")
    return 0 if not missed and not bad_replay else 1


def determinism(args, seed):
    """Each (family, focus, run) twice in FRESH interpreters with two PYTHONHASHSEEDs and two worker counts: the
    event-log hashes and verdicts must be identical."""
    from sim.cli import CHECKS

    pairs = []
    for prop, spec in sorted(CHECKS.items()):
        for fam, focus, rq, rt, params in spec["stages"]:
            if fam in ("e4", "e5", "e6"):
                continue
            pairs.append((prop, fam))
    n = args.runs or 150
    diffs = 0
    total = 0
    for prop, fam in pairs:
        logs = []
        for hs, jobs in (("0", 16), ("12345", 3)):
            env = dict(os.environ)
            env.pop("VERIF_CHILD", None)
            env["VERIF_HASHSEED"] = hs
            r = subprocess.run([os.path.join(ROOT, "check"), prop, "--stage", fam, "--runs", str(n), "--jobs", str(jobs),
                                "--no-evidence", "--dump-logs", f"/tmp/verif_det_{prop}_{fam}_{hs}.json"],
                               capture_output=True, text=True, env=env, cwd=ROOT, timeout=1800)
            with open(f"/tmp/verif_det_{prop}_{fam}_{hs}.json") as f:
                logs.append(json.load(f))
            os.remove(f"/tmp/verif_det_{prop}_{fam}_{hs}.json")
        total += len(logs[0])
        d = sum(1 for a, b in zip(logs[0], logs[1]) if a != b) + abs(len(logs[0]) - len(logs[1]))
        diffs += d
        print(f"determinism {prop}/{fam}: {len(logs[0])} runs x 2 interpreters/hash seeds/worker counts, {d} differing logs", flush=True)
    with open(os.path.join(ROOT, "evidence", "selftest-determinism.json"), "w") as f:
        json.dump({"pairs": total, "differing": diffs}, f)
    print(f"determinism: {total} (family, seed) pairs executed twice, {diffs} differ")
    return 0 if diffs == 0 else 1


def _put_and_die(q, trial):
    q.put(("x" * (10 if trial % 2 == 0 else 300000), trial))
    os._exit(1)  # the feeder thread may or may not have flushed


def stub_conformance(args, seed):
    """A handful of scenarios once against REAL multiprocessing and once against the fakes: results and aggregated
    statistics must agree (not a deciding check: it validates the stub, DESIGN.md 2.4)."""
    sys.path.insert(0, ROOT)
    from collections import Counter

    from sim import gen, mpsim, nucsio
    from sim.kernel import Choices
    from sim.families.e2_mp import new_parent

    import nucs.solvers.multiprocessing_solver as M

    bad = 0
    n = 0
    for i in range(args.runs or 12):
        ch = Choices(seed=1000 + i)
        model = gen.gen_model(ch, {"gcc_zero_cap": False, "max_space": 600, "max_props": 2})
        k = 1 + ch.choose(4, "k")
        var = ch.choose(len(model["idx"]), "var")
        op = ["solve", "minimize", "maximize"][ch.choose(3, "op")]
        obj = ch.choose(len(model["idx"]), "obj")

        def make():
            p = nucsio.build_problem(model)
            return [nucsio.build_solver(sp, gen.DEFAULT_CONFIG) for sp in p.split(k, var)]

        def call(parent):
            if op == "solve":
                return sorted(tuple(int(x) for x in s) for s in parent.solve())
            r = parent.minimize(obj) if op == "minimize" else parent.maximize(obj)
            return None if r is None else int(r[obj])

        real_parent = new_parent(make())
        real = call(real_parent)
        real_stats = real_parent.get_statistics()
        world = mpsim.World(ch, {"template": "jitter", "faults": {}, "start": {}, "late_pickle": True, "opcost": 1},
                            lambda stream, clone, method, a, kw: getattr(clone, method)(*a, **kw), {})
        sim_parent = new_parent(make())
        with mpsim.patched(world):
            simr = call(sim_parent)
        sim_stats = sim_parent.get_statistics()
        n += 1
        if real != simr or real_stats != sim_stats:
            bad += 1
            print(f"stub conformance DIFFERS on {gen.render_model(model)} split({k},{var}) {op}: real {str(real)[:200]} {real_stats} / sim {str(simr)[:200]} {sim_stats}")
    # Queue.qsize() is modelled as a semaphore count (puts made by producers minus gets), whether or not the message
    # ever reached the pipe: validated here against the real class with a producer that dies right after its put
    import multiprocessing as mp
    import queue as _q

    ctx = mp.get_context("fork")
    for trial in range(4):
        q = ctx.Queue()
        pr = ctx.Process(target=_put_and_die, args=(q, trial))
        pr.start()
        pr.join()
        size_after_death = q.qsize()
        try:
            q.get(timeout=0.5)
            arrived = True
        except _q.Empty:
            arrived = False
        n += 1
        want = 0 if arrived else 1
        if size_after_death != 1 or q.qsize() != want:
            bad += 1
            print(f"stub conformance DIFFERS: real qsize after a dying put = {size_after_death}, after get (arrived={arrived}) = {q.qsize()}")
        q.cancel_join_thread()
    print(f"stub conformance: {n} scenarios run against real multiprocessing and against the fakes, {bad} differ")
    with open(os.path.join(ROOT, "evidence", "selftest-stub-conformance.json"), "w") as f:
        json.dump({"scenarios": n, "differing": bad}, f)
    return 0 if bad == 0 else 1
