"""Interposition seams (interpreted mode only: NUMBA_DISABLE_JIT=1 makes every @njit function plain Python, so
module globals and the dispatch lists are the seams; nothing in /repo is modified).

Wrappers are behaviour-preserving: with no listener attached they call straight through.
"""
from __future__ import annotations

import os
import sys

import numpy as np

ALG_NAMES = {}
ORIG = {}
MISSING = []  # optional seams that this tree does not offer


class Tap:
    listener = None
    installed = False


def require_interpreted():
    if not os.environ.get("NUMBA_DISABLE_JIT"):
        raise RuntimeError("engine seams need NUMBA_DISABLE_JIT=1")


def install():
    if Tap.installed:
        return
    require_interpreted()
    import nucs.heuristics.heuristics as H
    import nucs.propagators.propagators as P
    import nucs.solvers.backtrack_solver as BS
    import nucs.solvers.bound_consistency_algorithm as BCA
    import nucs.solvers.consistency_algorithms as CA
    import nucs.solvers.shaving_consistency_algorithm as SHA

    from sim import nucsio

    nucsio.register_custom()  # before the dispatch list is wrapped: the custom constraint is monitored like the others
    for name in dir(P):
        if name.startswith("ALG_"):
            ALG_NAMES[getattr(P, name)] = name[4:].lower()
    # registered twice under the same name in propagators.py (index 17 and 18 are both min_geq)
    for i, f in enumerate(P.COMPUTE_DOMAINS_FCTS):
        nm = f.__name__.replace("compute_domains_", "")
        ALG_NAMES[i] = nm

    # --- compute_domains entries
    ORIG["compute"] = list(P.COMPUTE_DOMAINS_FCTS)
    for i, f in enumerate(ORIG["compute"]):
        P.COMPUTE_DOMAINS_FCTS[i] = _wrap_compute(i, f)

    # --- pop_propagator as seen by the engine
    ORIG["pop"] = BCA.pop_propagator

    def pop_wrapper(triggered, prev):
        L = Tap.listener
        if L is None:
            return ORIG["pop"](triggered, prev)
        return L.pop(triggered, prev, ORIG["pop"])

    BCA.pop_propagator = pop_wrapper

    # --- consistency algorithms
    ORIG["bc"] = BCA.bound_consistency_algorithm
    ORIG["shaving"] = SHA.shaving_consistency_algorithm

    def bc_wrapper(*args):
        L = Tap.listener
        if L is None:
            return ORIG["bc"](*args)
        return L.around_bc(ORIG["bc"], args)

    def shaving_wrapper(*args):
        L = Tap.listener
        if L is None:
            return ORIG["shaving"](*args)
        return L.around_shaving(ORIG["shaving"], args)

    bc_wrapper.__name__ = "bound_consistency_algorithm"
    shaving_wrapper.__name__ = "shaving_consistency_algorithm"
    for i, f in enumerate(list(CA.CONSISTENCY_ALG_FCTS)):
        if f is ORIG["bc"]:
            CA.CONSISTENCY_ALG_FCTS[i] = bc_wrapper
        elif f is ORIG["shaving"]:
            CA.CONSISTENCY_ALG_FCTS[i] = shaving_wrapper
    SHA.bound_consistency_algorithm = bc_wrapper  # inner passes of shaving

    # optional seam: a tree whose shaving algorithm has no separate probe function is still checked at the level of
    # the whole algorithm (stack height, contained in BC, no solution lost); the probe-level oracles are skipped
    if getattr(SHA, "shave_bound", None) is not None:
        ORIG["shave_bound"] = SHA.shave_bound

        def shave_bound_wrapper(*args):
            L = Tap.listener
            if L is None:
                return ORIG["shave_bound"](*args)
            return L.around_shave_bound(ORIG["shave_bound"], args)

        SHA.shave_bound = shave_bound_wrapper
    else:
        MISSING.append("shaving_consistency_algorithm.shave_bound")

    # --- heuristics
    ORIG["var_h"] = list(H.VAR_HEURISTIC_FCTS)
    ORIG["dom_h"] = list(H.DOM_HEURISTIC_FCTS)
    for i, f in enumerate(ORIG["var_h"]):
        H.VAR_HEURISTIC_FCTS[i] = _wrap_var_h(i, f)
    for i, f in enumerate(ORIG["dom_h"]):
        H.DOM_HEURISTIC_FCTS[i] = _wrap_dom_h(i, f)

    # --- backtrack
    ORIG["backtrack"] = BS.backtrack

    def backtrack_wrapper(*args):
        L = Tap.listener
        if L is None:
            return ORIG["backtrack"](*args)
        return L.around_backtrack(ORIG["backtrack"], args, "solver")

    def backtrack_wrapper_sh(*args):
        L = Tap.listener
        if L is None:
            return ORIG["backtrack"](*args)
        return L.around_backtrack(ORIG["backtrack"], args, "shaving")

    BS.backtrack = backtrack_wrapper
    if hasattr(SHA, "backtrack"):
        SHA.backtrack = backtrack_wrapper_sh
    Tap.installed = True


def _wrap_compute(i, f):
    def compute_wrapper(domains, parameters):
        L = Tap.listener
        if L is None:
            return f(domains, parameters)
        return L.around_compute(i, f, domains, parameters)

    compute_wrapper.__name__ = f.__name__
    return compute_wrapper


def _wrap_var_h(i, f):
    def var_h_wrapper(*args):
        L = Tap.listener
        if L is None:
            return f(*args)
        return L.around_var_h(i, f, args)

    var_h_wrapper.__name__ = f.__name__
    return var_h_wrapper


def _wrap_dom_h(i, f):
    def dom_h_wrapper(*args):
        L = Tap.listener
        if L is None:
            return f(*args)
        return L.around_dom_h(i, f, args)

    dom_h_wrapper.__name__ = f.__name__
    return dom_h_wrapper


class attach:
    def __init__(self, listener):
        self.listener = listener

    def __enter__(self):
        self.prev = Tap.listener
        Tap.listener = self.listener
        return self.listener

    def __exit__(self, *exc):
        Tap.listener = self.prev
        return False


# ------------------------------------------------------------------------------------------------ dirty allocator
# np.empty / np.empty_like promise nothing about the contents of what they return.  On a real machine a fresh large
# block is usually zero pages and a small one holds whatever the last array of that size left behind, so a read of
# never-written memory looks fine in tests and varies with the history of the process.  The simulator owns this source
# of nondeterminism: under `dirty_allocator(pattern)` every such array is handed out filled with a chosen pattern.
# Code that writes before it reads is unaffected.
class _Alloc:
    orig_empty = None
    orig_empty_like = None
    pattern = None  # None = untouched; int 0..255 = that byte; ("random", seed) = seeded bytes
    count = 0
    busy = False


def _soil(a):
    p = _Alloc.pattern
    if p is None or _Alloc.busy or a.size == 0 or not a.flags.writeable or a.nbytes > (1 << 24):
        return a
    _Alloc.busy = True  # numpy's own routines look np.empty up too
    try:
        _Alloc.count += 1
        if isinstance(p, tuple):
            import random

            noise = np.frombuffer(random.Random(p[1] * 1000003 + _Alloc.count).randbytes(a.nbytes), dtype=np.uint8)
        else:
            noise = p
        if a.dtype == np.bool_:
            a.reshape(-1)[:] = (noise & 1).astype(np.bool_) if isinstance(p, tuple) else bool(p & 1)
        else:
            a.reshape(-1).view(np.uint8)[:] = noise
    except (ValueError, TypeError, AttributeError):  # object arrays, non-contiguous results: left alone
        pass
    finally:
        _Alloc.busy = False
    return a


def install_allocator():
    if _Alloc.orig_empty is not None:
        return
    _Alloc.orig_empty = np.empty
    _Alloc.orig_empty_like = np.empty_like

    def empty(*args, **kw):
        return _soil(_Alloc.orig_empty(*args, **kw))

    def empty_like(*args, **kw):
        return _soil(_Alloc.orig_empty_like(*args, **kw))

    empty.__name__ = "empty"
    empty_like.__name__ = "empty_like"
    np.empty = empty
    np.empty_like = empty_like


PATTERNS = [None, 0x00, 0xFF, 0xA5, 0x01, ("random", 0)]


class dirty_allocator:
    def __init__(self, pattern):
        self.pattern = pattern

    def __enter__(self):
        require_interpreted()
        install_allocator()
        self.prev = _Alloc.pattern
        _Alloc.pattern = self.pattern
        _Alloc.count = 0  # the contents are a function of the run, not of the process
        return self

    def __exit__(self, *exc):
        _Alloc.pattern = self.prev
        return False


def draw_pattern(ch, label="alloc"):
    """Per run: which contents the allocator hands out (swarm style; 1/3 of the runs leave it alone)."""
    k = ch.choose(9, label)
    if k < 3:
        return None
    if k < 8:
        return [0x00, 0xFF, 0xA5, 0x01, 0x80][k - 3]
    return ("random", ch.choose(1 << 16, label + ".seed"))
