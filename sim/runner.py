"""Batch execution of simulated runs on a fork pool, ordered aggregation, minimisation, evidence."""
from __future__ import annotations

import concurrent.futures as cf
import faulthandler
import importlib
import json
import multiprocessing
import os
import sys
import time
from collections import Counter
from typing import Dict, List, Optional

from sim.kernel import Choices, mix_seed, sha, shrink, write_replay

ROOT = os.path.dirname(os.path.dirname(os.path.abspath(__file__)))

FAMILY_SALT = {"e1": 11, "e2": 22, "e3": 33, "e4": 44, "e5": 55, "e6": 66, "e1c13": 77, "e7": 88}
FAMILY_MODULE = {
    "e1": "sim.families.e1_engine",
    "e2": "sim.families.e2_mp",
    "e3": "sim.families.e3_cpstack",
    "e4": "sim.families.e4_history",
    "e5": "sim.families.e5_capacity",
    "e6": "sim.families.e6_models",
    "e1c13": "sim.families.e1_rewrite",
    "e7": "sim.families.e7_boundscheck",
}


KNOWN_MATCHER = None  # set by the CLI before the pool forks: (property, violation, result) -> finding id or None


class HarnessTimeout(Exception):
    pass


def family(name: str):
    return importlib.import_module(FAMILY_MODULE[name])


def run_seed(base_seed: int, fam: str, focus: str, run: int) -> int:
    return mix_seed(base_seed, FAMILY_SALT[fam] * 1000 + int(focus[1:]), run)


def execute(fam: str, focus: str, params: dict, seed: Optional[int] = None, trace=None) -> dict:
    ch = Choices(seed=seed, trace=trace)
    res = family(fam).run(ch, focus, params)
    res["trace"] = ch.trace()
    return res


def _chunk(args):
    fam, focus, params, base_seed, start, count, want_samples = args
    faulthandler.enable()
    agg = {
        "n": 0, "keys": [], "probes": Counter(), "faults": Counter(), "steps": 0, "vtime": 0.0, "viol": [],
        "samples": [], "log": [], "orders": 0, "known": {},
    }
    for i in range(start, start + count):
        s = run_seed(base_seed, fam, focus, i)
        res = execute(fam, focus, dict(params, run_index=i), seed=s)
        agg["n"] += 1
        if res.get("nontrivial"):
            agg["keys"].append(res.get("key"))
        for k, v in res.get("probes", {}).items():
            if k.startswith("max_"):
                agg["probes"][k] = max(agg["probes"][k], v)
            else:
                agg["probes"][k] += v
        for k, v in res.get("faults", {}).items():
            agg["faults"][k] += v
        agg["steps"] += res.get("steps", 0)
        agg["vtime"] += res.get("vtime", 0.0)
        agg["log"].append(res.get("log_sha"))
        mine = [v for v in res["violations"] if v["property"] == focus]
        others = [v for v in res["violations"] if v["property"] != focus]
        for v in others:
            agg["probes"]["other_property_observations:" + v["property"]] += 1
        if mine and KNOWN_MATCHER is not None:
            # violations matching a recorded finding are tallied, they neither stop the batch nor get minimised
            rest = []
            for v in mine:
                kf = KNOWN_MATCHER(focus, v, res)
                if kf is None:
                    rest.append(v)
                else:
                    agg["known"][kf] = agg["known"].get(kf, 0) + 1
            mine = rest
        if mine:
            agg["cut_short"] = True
            agg["viol"].append(
                {"run": i, "seed": s, "violations": mine, "trace": res["trace"], "model_dict": res.get("model_dict")}
            )
        if want_samples and len(agg["samples"]) < want_samples and res.get("nontrivial"):
            agg["samples"].append(res.get("sample"))
        if mine:
            break  # the rest of a violating chunk is skipped (deterministic: its first violation is what is reported)
    return agg


def run_batch(fam: str, focus: str, params: dict, base_seed: int, runs: int, jobs: int, deadline: Optional[float],
              chunk: int = 25, per_chunk_timeout: float = 900.0) -> dict:
    total = {
        "n": 0, "keys": set(), "probes": Counter(), "faults": Counter(), "steps": 0, "vtime": 0.0, "viol": [],
        "samples": [], "log": [], "stopped_early": False, "known": {},
    }
    tasks = [(fam, focus, params, base_seed, st, min(chunk, runs - st), 2 if st == 0 else 0) for st in range(0, runs, chunk)]
    if jobs <= 1:
        for t in tasks:
            if deadline and time.time() > deadline:
                total["stopped_early"] = True
                break
            _merge(total, _chunk(t))
        return total
    ctx = multiprocessing.get_context("fork")
    ex = cf.ProcessPoolExecutor(max_workers=jobs, mp_context=ctx)
    procs = None
    try:
        pending = []
        it = iter(tasks)
        results = {}
        submitted = 0
        done_idx = 0
        futs = {}
        # keep at most 2*jobs in flight so that a deadline stops submission
        stop = [False]  # a violating chunk stops the submission of further chunks (those in flight complete: the
        # completed set is always a prefix of the run order, so the first violating run is the same whatever the timing)

        def submit_more():
            nonlocal submitted
            while len(futs) < jobs + 2 and not stop[0]:
                if deadline and time.time() > deadline:
                    total["stopped_early"] = True
                    return
                t = next(it, None)
                if t is None:
                    return
                futs[ex.submit(_chunk, t)] = submitted
                submitted += 1

        submit_more()
        procs = list((getattr(ex, "_processes", None) or {}).values())
        while futs:
            done, _ = cf.wait(list(futs), timeout=per_chunk_timeout, return_when=cf.FIRST_COMPLETED)
            if not done:
                raise HarnessTimeout(f"no chunk finished within {per_chunk_timeout}s")
            for f in done:
                idx = futs.pop(f)
                results[idx] = f.result()
                if results[idx]["viol"]:
                    stop[0] = True
                    total["stopped_early"] = True
            submit_more()
        for idx in sorted(results):  # aggregate in run order, never in completion order
            _merge(total, results[idx])
    finally:
        ex.shutdown(wait=False, cancel_futures=True)
        for p in procs or []:
            try:
                p.kill()
            except Exception:
                pass
    return total


def _merge(total, agg):
    total["n"] += agg["n"]
    for k, v in agg.get("known", {}).items():
        total["known"][k] = total["known"].get(k, 0) + v
    total["keys"].update(agg["keys"])
    for k, v in agg["probes"].items():
        if k.startswith("max_"):
            total["probes"][k] = max(total["probes"][k], v)
        else:
            total["probes"][k] += v
    for k, v in agg["faults"].items():
        total["faults"][k] += v
    total["steps"] += agg["steps"]
    total["vtime"] += agg["vtime"]
    total["viol"].extend(agg["viol"])
    total["log"].extend(agg["log"])
    if len(total["samples"]) < 3:
        total["samples"].extend(agg["samples"][: 3 - len(total["samples"])])


def minimise(fam: str, focus: str, params: dict, bad: dict, max_evals: int = 250, max_seconds: float = 60.0):
    """Shrink the trace of a violating run while the same (property, oracle) class persists; every accepted
    candidate has been re-executed, and the final one is executed once more for confirmation."""
    target = (bad["violations"][0]["property"], bad["violations"][0]["oracle"])

    def still(trace):
        try:
            r = execute(fam, focus, params, trace=trace)
        except Exception:
            return None
        for v in r["violations"]:
            if (v["property"], v["oracle"]) == target:
                return r["trace"]
        return None

    best, evals = shrink(bad["trace"], still, max_evals=max_evals, max_seconds=max_seconds)
    final = execute(fam, focus, params, trace=best)
    vs = [v for v in final["violations"] if (v["property"], v["oracle"]) == target]
    if not vs:  # should not happen; fall back to the original trace
        best = bad["trace"]
        final = execute(fam, focus, params, trace=best)
        vs = [v for v in final["violations"] if (v["property"], v["oracle"]) == target]
    return best, final, vs, evals


def replay_payload(fam, focus, params, seed, run, trace, final, vs, tier):
    return {
        "property": focus,
        "family": fam,
        "tier": tier,
        "seed": seed,
        "run": run,
        "params": params,
        "trace": trace,
        "rendered": final.get("sample"),
        "violation": {
            "oracle": vs[0]["oracle"] if vs else None,
            "message": vs[0]["message"] if vs else None,
            "event_log_sha256": final.get("log_sha"),
        },
    }
