"""Entry point behind /verif/check."""
from __future__ import annotations

import argparse
import json
import os
import re
import sys
import time
from collections import Counter

ROOT = os.path.dirname(os.path.dirname(os.path.abspath(__file__)))

# property -> list of stages; each stage = (family, focus, runs_quick, runs_thorough, params)
CHECKS = {
    "C01": {"level": "exploration", "stages": [("e1", "C01", 120000, 3000000, {}), ("e2", "C01", 8000, 400000, {}), ("e7", "C01", 40000, 1500000, {"boundscheck": 0})]},
    "C02": {"level": "exploration", "stages": [("e1", "C02", 80000, 2500000, {}), ("e2", "C02", 8000, 400000, {}), ("e7", "C02", 40000, 1500000, {"boundscheck": 0})]},
    "C03": {"level": "exploration", "stages": [("e1", "C03", 60000, 2000000, {}), ("e2", "C03", 8000, 400000, {}), ("e7", "C03", 40000, 1500000, {"boundscheck": 0})]},
    "C04": {"level": "exploration", "stages": [("e1", "C04", 40000, 1500000, {})]},
    "C07": {"level": "exploration", "stages": [("e1", "C07", 60000, 1500000, {}), ("e3", "C07", 20000, 600000, {})]},
    "C08": {"level": "exploration", "stages": [("e1", "C08", 50000, 1500000, {})]},
    "C09": {"level": "exploration", "stages": [("e3", "C09", 60000, 4000000, {}), ("e1", "C09", 20000, 600000, {})]},
    "C10": {"level": "exploration", "stages": [("e1", "C10", 20000, 700000, {})]},
    "C13": {"level": "exploration", "stages": [("e1c13", "C13", 20000, 700000, {}), ("e6", "C13", 0, 0, {"runs_factor": 1})]},
    "C15": {"level": "exploration", "stages": [("e4", "C15", 0, 0, {}), ("e4", "C15", 0, 0, {"wide": 1, "n_quick": 32, "n_thorough": 600}), ("e1", "C15", 30000, 1000000, {})]},
    "C16": {"level": "exploration", "stages": [("e1", "C16", 30000, 1000000, {}), ("e3", "C16", 20000, 600000, {}), ("e2", "C16", 8000, 400000, {}), ("e6", "C16", 0, 0, {"interpreted": 1}),
                                                 ("e7", "C16", 60000, 1500000, {"boundscheck": 1})]},
    "C17": {"level": "exploration", "stages": [("e1", "C17", 30000, 1000000, {}), ("e2", "C17", 8000, 400000, {})]},
    "C11": {"level": "exploration", "stages": [("e2", "C11", 20000, 1500000, {})]},
    "C12": {"level": "exploration", "stages": [("e2", "C12", 20000, 1500000, {})]},
    "C18": {"level": "fault_enumeration", "stages": [("e2", "C18", 6000, 600000, {})]},
    "C19": {"level": "fault_enumeration", "stages": [("e5", "C19", 0, 0, {})]},
    "C20": {"level": "exploration", "stages": [("e6", "C20", 0, 0, {})]},
}

REAL_VS_STUB = {
    "real": [
        "all propagators", "bound_consistency_algorithm", "shaving_consistency_algorithm", "all heuristics",
        "cp_init/cp_put/backtrack", "solve_one", "BacktrackSolver (all methods)", "Problem (split, init)",
        "MultiprocessingSolver (parent loop, reducers, statistics aggregation)", "shipped example models",
    ],
    "stub": [
        "multiprocessing.Process -> SimProcess (E2 only)", "multiprocessing.Queue -> SimQueue (E2 only)",
        "pop_propagator -> seeded scheduler (C08 permuted-order runs only; real in native-order runs)",
        "time (virtual clock, E2 only)",
        "numpy.empty / numpy.empty_like -> same allocation, contents chosen by the simulator (interpreted families; 2/3 of the runs)",
    ],
    "not_injected_because_absent_in_nucs": [
        "disk errors", "network loss/duplication/partition", "clock skew", "allocation failure", "EINTR",
    ],
}


def load_known():
    p = os.path.join(ROOT, "known_findings.json")
    if not os.path.exists(p):
        return {"findings": [], "fixed": []}
    with open(p) as f:
        return json.load(f)


def known_params(known) -> dict:
    out = {}
    for f in known.get("findings", []):
        for k in f.get("exclude_flags", []):
            out[k] = True
    return out


def _gcc_zero(props) -> bool:
    for vs, alg, params in props:
        if alg == "gcc":
            m = (len(params) - 1) // 2
            if any(u == 0 for u in params[1 + m :]):
                return True
    return False


def _pred_model_gcc_zero(violation, result) -> bool:
    md = (result or {}).get("model_dict")
    return bool(md) and _gcc_zero(md["props"])


def _pred_violated_gcc_zero(violation, result) -> bool:
    m = re.search(r"constraint #\d+ gcc(\[[-0-9, ]*\]) violated", violation["message"])
    if not m:
        return False
    params = json.loads(m.group(1))
    return _gcc_zero([[[], "gcc", params]])


KNOWN_PREDICATES = {
    "model_has_gcc_with_zero_capacity": _pred_model_gcc_zero,
    "violated_constraint_is_gcc_with_zero_capacity": _pred_violated_gcc_zero,
}


def match_known(known, prop, violation, result=None) -> dict | None:
    for f in known.get("findings", []):
        if f["property"] != prop:
            continue
        m = f.get("match", {})
        if "oracle" in m and violation["oracle"] not in m["oracle"]:
            continue
        if "message_regex" in m and not re.search(m["message_regex"], violation["message"]):
            continue
        if "predicate" in m and not KNOWN_PREDICATES[m["predicate"]](violation, result):
            continue
        return f
    return None


def main(argv=None):
    ap = argparse.ArgumentParser()
    ap.add_argument("target")
    ap.add_argument("--tier", default=os.environ.get("VERIF_TIER", "quick"))
    ap.add_argument("--replay")
    ap.add_argument("--runs", type=int)
    ap.add_argument("--jobs", type=int, default=int(os.environ.get("VERIF_JOBS", "0")) or (os.cpu_count() or 4))
    ap.add_argument("--seconds", type=float, help="wall-clock cap for the whole check (stops submitting new runs)")
    ap.add_argument("--stage", help="only this family")
    ap.add_argument("--no-evidence", action="store_true")
    ap.add_argument("--no-known", action="store_true", help="developer aid: ignore known_findings.json")
    ap.add_argument("--survey", action="store_true", help="list violation classes of ALL properties, no shrinking")
    ap.add_argument("--param", action="append", default=[], help="developer aid: key=value override of stage params")
    ap.add_argument("--dump-logs", help="selftest aid: write the ordered list of event-log hashes to this file")
    ap.add_argument("--one", type=int, help="developer aid: execute run index N of the (first/--stage) family and dump it")
    args = ap.parse_args(argv)
    seed = int(os.environ.get("VERIF_SEED", "0") or 0)

    if args.target.startswith("selftest"):
        from selftest import main as st

        return st.main(args.target, args, seed)

    prop = args.target
    if prop not in CHECKS:
        print(f"unknown property {prop}", file=sys.stderr)
        return 2
    from sim import runner

    known = load_known() if not args.no_known else {"findings": [], "fixed": []}
    kparams = known_params(known)
    extra = {}
    for kv in args.param:
        k_, v_ = kv.split("=", 1)
        extra[k_] = int(v_) if v_.lstrip("-").isdigit() else v_
    if extra:
        for k_ in CHECKS:
            CHECKS[k_]["stages"] = [(a, b, c, d, dict(e, **extra)) for a, b, c, d, e in CHECKS[k_]["stages"]]

    if args.replay:
        with open(args.replay) as f:
            rp = json.load(f)
        params = dict(rp.get("params") or {})
        res = runner.execute(rp["family"], rp["property"], params, trace=rp["trace"])
        mine = [v for v in res["violations"] if v["property"] == rp["property"]]
        print(json.dumps({"violations": mine, "event_log_sha256": res.get("log_sha"), "rendered": res.get("sample")}, indent=1, default=str))
        want = rp.get("violation", {})
        if mine:
            # pinned explicit scenarios (known/, regress/) carry no recorded run to compare with
            same = not want.get("oracle") or (
                any(v["oracle"] == want.get("oracle") for v in mine) and res.get("log_sha") == want.get("event_log_sha256")
            )
            print(f"VIOLATION property={rp['property']} replay={args.replay}" + ("" if same else " (differs from the recorded run)"))
            return 1
        print("replay did not reproduce a violation")
        return 0

    if args.one is not None:
        from sim import runner

        for fam, focus, rq, rt, params in CHECKS[prop]["stages"]:
            if args.stage and args.stage != fam:
                continue
            res = runner.execute(fam, focus, dict(params, known=kparams, tier=args.tier), seed=runner.run_seed(seed, fam, focus, args.one))
            res.pop("trace", None)
            print(json.dumps(res, indent=1, default=str))
            break
        return 0
    if args.survey:
        return survey(prop, args, seed, kparams)
    def _matcher(p_, v_, res_):
        kf_ = match_known(known, p_, v_, res_)
        return None if kf_ is None else kf_["id"]

    runner.KNOWN_MATCHER = _matcher
    t0 = time.time()
    spec = CHECKS[prop]
    tier = args.tier
    default_cap = 900.0 if tier == "quick" else 7000.0
    deadline = t0 + (args.seconds if args.seconds else default_cap)
    totals = []
    rc = 0
    violation_lines = []
    known_lines = []
    # pinned witnesses of recorded findings owned by this property
    for f in known.get("findings", []):
        if f["property"] != prop or not f.get("replay"):
            continue
        with open(os.path.join(ROOT, f["replay"])) as fh:
            rp = json.load(fh)
        res = runner.execute(rp["family"], rp["property"], dict(rp.get("params") or {}), trace=rp["trace"])
        mine = [v for v in res["violations"] if v["property"] == prop and match_known(known, prop, v, res) is f]
        if mine:
            known_lines.append(f"KNOWN-FINDING: property={prop} {f['id']}: {f['what_fails']}")
    # regression replays of repaired defects (explicit pinned scenarios): a violation that returns is reported again
    import glob as _glob

    nreg = 0
    for path in sorted(_glob.glob(os.path.join(ROOT, "regress", f"{prop}-*.json"))):
        with open(path) as fh:
            rp = json.load(fh)
        res = runner.execute(rp["family"], rp["property"], dict(rp.get("params") or {}), trace=rp.get("trace") or [])
        nreg += 1
        mine = [v for v in res["violations"] if v["property"] == prop and match_known(known, prop, v, res) is None]
        if mine:
            violation_lines.append((f"VIOLATION property={prop} replay={path}", mine[0]))
            rc = 1
    for fam, focus, rq, rt, params in spec["stages"]:
        if args.stage and args.stage != fam:
            continue
        if rc == 1:
            # the verdict is in; a later stage (the compiled executor, say) on a tree that is already known to break the
            # property could only turn the violation into a harness error (a warm-up that never returns)
            print(f"stage {fam} skipped: a violation has already been reported")
            continue
        params = dict(params)
        params["known"] = kparams
        params["tier"] = tier
        fmod = runner.family(fam)
        runs = args.runs if args.runs else (rq if tier == "quick" else rt)
        if not runs:
            runs = fmod.n_runs(tier) if not params.get("interpreted") else fmod.n_runs_interpreted(tier)
            if params.get("n_quick"):
                runs = params["n_quick"] if tier == "quick" else params["n_thorough"]
            if params.get("runs_factor"):
                runs = len(fmod.points(tier)) * params["runs_factor"] * (1 if tier == "quick" else 4)
        if hasattr(fmod, "prepare"):
            fmod.prepare(params)
        st0 = time.time()
        tot = runner.run_batch(fam, focus, params, seed, runs, args.jobs, deadline, chunk=getattr(fmod, "CHUNK", 25),
                               per_chunk_timeout=getattr(fmod, "CHUNK_TIMEOUT", 900.0))
        tot["family"] = fam
        tot["wall"] = time.time() - st0
        totals.append(tot)
        for kid, cnt in sorted(tot.get("known", {}).items()):
            kf = next(f for f in known["findings"] if f["id"] == kid)
            line = f"KNOWN-FINDING: property={prop} {kf['id']}: {kf['what_fails']}"
            if line not in known_lines:
                known_lines.append(line)
        reported = set()
        for bad in tot["viol"]:
            # violations that match a recorded finding are reported as such (no minimisation needed)
            unknown = []
            for v in bad["violations"]:
                kf = match_known(known, prop, v, bad)
                if kf is None:
                    unknown.append(v)
                else:
                    line = f"KNOWN-FINDING: property={prop} {kf['id']}: {kf['what_fails']}"
                    if line not in known_lines:
                        known_lines.append(line)
            if not unknown:
                continue
            cls = unknown[0]["oracle"]
            if cls in reported or len(reported) >= 4:
                continue
            reported.add(cls)
            bad = dict(bad, violations=unknown)
            if getattr(fmod, "ENUMERATED", False):
                # enumerated points: nothing to minimise; the replay is the recorded point, re-executed once
                best = bad["trace"]
                final = runner.execute(fam, focus, params, trace=best)
                vs = [v for v in final["violations"] if v["property"] == focus]
                evals = 1
                if not vs:
                    vs = unknown
            else:
                best, final, vs, evals = runner.minimise(fam, focus, params, bad, max_evals=300 if tier == "quick" else 800,
                                                        max_seconds=45.0 if tier == "quick" else 240.0)
            v = vs[0] if vs else unknown[0]
            payload = runner.replay_payload(fam, focus, params, bad["seed"], bad["run"], best, final, vs, tier)
            payload["base_seed"] = seed
            payload["shrink_evals"] = evals
            payload["original_trace_len"] = len(bad["trace"])
            path = runner.write_replay(ROOT, prop, payload)
            violation_lines.append((f"VIOLATION property={prop} replay={path}", v))
            rc = 1
    wall = time.time() - t0
    if args.dump_logs:
        with open(args.dump_logs, "w") as fh:
            json.dump([x for t in totals for x in t["log"]], fh)
    for l in known_lines:
        print(l)
    for l, v in violation_lines:
        print(f"  oracle={v['oracle']}: {v['message'][:600]}")
        print(l)
    if not args.no_evidence:
        write_evidence(prop, spec, tier, seed, totals, wall, len(violation_lines), known_lines, kparams)
    n = sum(t["n"] for t in totals)
    print(f"{prop} [{tier}] runs={n} wall={wall:.1f}s violations={len(violation_lines)} known={len(known_lines)}")
    return rc


def survey(prop, args, seed, kparams):
    """Developer aid: run the stages and list every violation class (of any property) with one example."""
    from sim import runner

    classes = {}
    counts = Counter()
    n = 0
    for fam, focus, rq, rt, params in CHECKS[prop]["stages"]:
        if args.stage and args.stage != fam:
            continue
        runs = args.runs or rq
        params = dict(params, known=kparams, tier=args.tier)
        for i in range(runs):
            s = runner.run_seed(seed, fam, focus, i)
            res = runner.execute(fam, focus, params, seed=s)
            n += 1
            for v in res["violations"]:
                key = (v["property"], v["oracle"])
                counts[key] += 1
                classes.setdefault(key, (i, v["message"]))
    for key in sorted(classes):
        i, msg = classes[key]
        print(f"{key[0]} {key[1]} x{counts[key]} (run {i}): {msg[:700]}")
    print(f"survey: {n} runs")
    return 0


def write_evidence(prop, spec, tier, seed, totals, wall, nviol, known_lines, kparams):
    n = sum(t["n"] for t in totals)
    keys = set()
    probes = Counter()
    faults = Counter()
    steps = 0
    vtime = 0.0
    samples = []
    per_family = {}
    logs = []
    for t in totals:
        keys |= {(t["family"], k) for k in t["keys"]}
        for k, v in t["probes"].items():
            if k.startswith("max_"):
                probes[k] = max(probes[k], v)
            else:
                probes[k] += v
        for k, v in t["faults"].items():
            faults[k] += v
        steps += t["steps"]
        vtime += t["vtime"]
        samples.extend(t["samples"][:2])
        logs.extend(x for x in t["log"] if x)
        per_family[t["family"]] = {
            "runs": t["n"], "wall_s": round(t["wall"], 2), "stopped_early_by_wall_cap": t["stopped_early"],
            "runs_per_hour": int(3600 * t["n"] / max(t["wall"], 1e-6)),
        }
    ev = {
        "property_id": prop,
        "tier": tier if tier in ("quick", "thorough") else "quick",
        "seed": seed,
        "level": spec["level"],
        "coverage": {
            "evaluations": n,
            "distinct_nontrivial": len(keys),
            "rule": RULES.get(prop, DEFAULT_RULE),
            "samples": samples[:4] if samples else [{"note": "no non-trivial sample recorded"}],
            "simulated_runs": n,
            "runs_per_hour": int(3600 * n / max(wall, 1e-6)),
            "seeds": f"VERIF_SEED={seed}; run i of family f uses mix_seed(seed, salt(f, property), i)",
            "simulated_steps": steps,
            "simulated_time_virtual_seconds": round(vtime, 3),
            "fault_kinds_fired": dict(faults),
            "probes": dict(probes),
            "distinct_event_logs": len(set(logs)),
            "per_family": per_family,
            "components": REAL_VS_STUB,
            "excluded_regions": sorted(kparams),
            "known_findings_reported": known_lines,
        },
        "assumptions": ASSUMPTIONS.get(prop, []) + COMMON_ASSUMPTIONS,
        "wall_s": round(wall, 2),
        "violations": nviol,
    }
    os.makedirs(os.path.join(ROOT, "evidence"), exist_ok=True)
    with open(os.path.join(ROOT, "evidence", f"{prop}.json"), "w") as f:
        json.dump(ev, f, indent=1, default=str)


DEFAULT_RULE = (
    "Each evaluation is one simulated run = one seeded choice trace (model, configuration, posting order, schedule, "
    "faults). A run is non-trivial when the generated scenario has >= 2 points in its search space, >= 1 constraint "
    "and executed real NuCS code; distinct = distinct SHA-256 of (rendered scenario, configuration list)."
)
_E1 = ("E1: one run = generated in-contract model (1-4 shared domains, <= 8 variables through indices/offsets, 1-3 "
       "constraints of the 21 shipped types, aliasing of a shared domain inside a constraint in about 1/4 of them) x 1-3 "
       "(configuration, posting order, mode) triples through the real BacktrackSolver, interpreted, monitors attached. ")
_E2 = ("E2: one run = model + partition (Problem.split or hand partition) + per-worker configurations + operation + "
       "seeded delivery plan (merge / jitter / sequential / reverse / slow / race templates, op latency, stalls, late "
       "pickling, pipe capacity) through the real MultiprocessingSolver over SimProcess/SimQueue. ")
_NT = ("Non-trivial: search space >= 2, >= 1 constraint, real NuCS code executed. Distinct: SHA-256 of the rendered "
       "scenario (model, configurations / plan, observed delivery order).")
RULES = {
    "C01": _E1 + _E2 + "Oracle on every reported vector: domains, offsets of shared domains, ground predicate of every constraint. " + _NT,
    "C02": _E1 + _E2 + "Oracle: multiset of enumerated solutions = independent enumeration of the cartesian product. " + _NT,
    "C03": _E1 + _E2 + "Oracle: feasible, optimal w.r.t. the reference, None iff infeasible, terminates within the step budget. " + _NT,
    "C04": _E1 + "Oracle: per-pass execution bound 2(P+1)(S+2); 1.5 M simulated steps per solver call (backward jumps in NuCS code + charged interposed events); variable heuristic never answers 'nothing to branch on' in an unsolved state. " + _NT,
    "C07": _E1 + "E3: random push/pop/entail sequences on the real stack arrays. Oracle: every disabled constraint is satisfied by every tuple of the current box at every quiescent point; every 'entailed' answer checked on all tuples of the returned box; flags restored on backtrack. " + _NT,
    "C08": _E1 + "Wake order per run: native / random / reverse / starve-one (seeded scheduler replaces pop_propagator). Oracle at every pass end: contraction, shadow re-execution fixpoint, equality with the reference greatest fixpoint when every execution of the pass was observed exact. " + _NT,
    "C09": "E3: one run = 1-4 domains (negative, size 1-7), random flags and trigger masks, 3-22 operations (push through one of the 5 real value heuristics, shrink, entail, pop through the real backtrack) against a reference stack; " + _E1 + _NT,
    "C10": _E1 + "(shaving forced in 3/4 of the configurations). Oracle around every shaving call and every probe: stack height, restored domains/flags, shaved bound announced, contained in plain BC (run on a copy), no solution lost, shaved only if refuted. " + _NT,
    "C11": _E2 + "Oracle: multiset / optimum / None as the reference, nothing left in flight at return, no extra get, statistics = sum (max for depth) of the workers' FINAL statistics; 1/4 of the runs judge the second call on a reused instance. " + _NT,
    "C12": _E2 + "(Problem.split always, k up to size+3, any variable incl. shared domains with offsets). Oracle: original unchanged, parts differ only in that domain, no shared state, each part solved by a simulated worker under the step budget, disjoint union = reference. " + _NT,
    "C13": "e1c13: generated model + 1-2 rewrites (permute constraints / variables / shared domains, duplicate a constraint, add an always-true constraint, unshare through x-y=offset, translate) solved under independent configurations; e6: shipped models with shuffled / duplicated / always-true constraints against known counts and optima. " + _NT,
    "C15": "E4: one run = 1-3 generated models + a history of 3-10 operations in one interpreter, executed interpreted (twice) and compiled, + clean-room executions (fresh interpreter, own dependency chain) of 3 operations. Distinct = SHA-256 of the history.",
    "C16": _E1 + "(arities up to 6, up to 8 variables; wide runs up to 12) + E3 + E7: the same kind of generated model x configuration x call executed by the JIT-COMPILED engine built with NUMBA_BOUNDSCHECK=1 in a persistent sacrificial interpreter per pool process. Oracle: no exception from a NuCS frame (IndexError in particular) on in-contract input, interpreted; no index error (raised, or reported through sys.unraisablehook from behind a function address) and no death by signal, compiled. " + _NT,
    "C17": _E1 + _E2 + "Oracle: each of the 13 counters = event count from the interposed log (every documented reading of 'no change' accepted), laws for exhaustive BC enumeration, per-worker laws and sums. " + _NT,
    "C18": _E2 + "then, per scenario, EVERY (worker, death point, kind in {exception, kill with 0..2 unflushed messages lost}) when there are <= 24 of them (a seeded sample of 24 otherwise), each under a fresh delivery plan, 1/6 with a second death, 1/4 with a stalled survivor, 1/3 on a reused parent instance. Oracle: returns or raises within bounded virtual time; SimDeadlock (blocking get/join that can never return, endless polling) is the hang; results contain all survivor solutions, nothing invented. " + _NT,
    "C19": "E5: enumerated capacity points (stack heights x required depths x 1- or 2-level heuristics x BC/shaving; heights around the 8-bit limit; sizes around 2^16 parameters / positions / domains and 2^8 constraint types), each compiled in a sacrificial interpreter and interpreted. Distinct = point.",
    "C20": "E6: enumerated (shipped model, size, symmetry breaking) points x {default configuration, 2 seeded (configuration, simulated workers, interleaving) variants}; definition-level validator on every solution; known counts / optima / brute force; known valid objects offered to the model. Distinct = (point, variant).",
}
COMMON_ASSUMPTIONS = [
    "interpreted execution (NUMBA_DISABLE_JIT=1) of the working tree stands for the compiled engine (sampled by C15)",
    "reference semantics written from docs/source/reference.rst",
    "sampling: a clean batch is evidence, not proof",
]
_MP = [
    "workers are run eagerly to completion and their message streams replayed: exact because workers share nothing and "
    "receive nothing; the simulator owns merge order, availability times, op latency, pipe capacity, late pickling and "
    "where a stream is cut by death",
    "the fakes model message-granular behaviour of pipes and process exit, not torn writes or OS resource exhaustion; "
    "validated against real multiprocessing by ./check selftest-stub-conformance",
]
ASSUMPTIONS = {
    "C01": _MP, "C02": _MP, "C03": _MP, "C11": _MP, "C12": _MP, "C17": _MP, "C18": _MP + [
        "a death is an exception at a put (flushes what was enqueued) or a kill (0-2 unflushed messages lost); message "
        "duplication / loss without a crash / reordering within one stream are not injected: a pipe cannot do them",
        "liveness oracle in virtual time: SimDeadlock = blocking get/join that can never return, or polling that goes "
        "on 10 virtual minutes after the last worker exited",
    ],
    "C04": ["termination is judged by a simulated-step budget two orders of magnitude above what terminating runs of the scope use (largest used/budget ratio reported in probes.max_budget_ratio_ppm)"],
    "C08": ["clause 3 is decided on constraint types: models made only of the types listed as bound-consistent, no shared domain twice in one constraint"],
    "C15": ["compiled runs use a per-tree numba cache under /verif/.cache; clean-room = fresh interpreter executing only the operation's own dependency chain"],
    "C16": ["monitor-strength claim: numpy bounds checks in interpreted mode and numba's bounds checks in a separately compiled build (per-tree cache <sha>-bc); negative indices within the array length wrap silently in both and surface as wrong answers under C02 instead",
            "the bounds-checked compiled build differs from the shipped compiled build only in the boundscheck flag"],
    "C19": ["each point runs compiled in a sacrificial interpreter and once interpreted; numpy's own IndexError / OverflowError count as 'raises an error'"],
    "C20": ["known counts: literature (queens, latin squares, magic squares, Golomb optima, Schur number) or brute force over the definition in sim/modelworker.py; known objects from explicit constructions validated by the same validators"],
}
