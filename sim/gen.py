"""In-contract workload generators (DESIGN.md Appendix A).  Everything is drawn through Choices; choice 0 is the
simplest alternative everywhere.  Nothing outside the documented contracts is ever produced."""
from __future__ import annotations

from typing import Dict, List, Optional, Sequence, Tuple

from sim.kernel import Choices
from sim.refmodel import space_size

ALL_TYPES = [
    "affine_leq", "affine_eq", "affine_geq", "alldifferent", "count_eq", "exactly_eq", "element_iv", "element_lic",
    "element_liv", "lexicographic_leq", "max_eq", "max_leq", "min_eq", "min_geq", "relation", "gcc", "dummy",
    "and", "exactly_true",
]
BOOL_TYPES = ["and", "exactly_true"]

SIZES = [2, 3, 1, 4]
LOWS = [0, 1, -1, -2, 2, -3, 3]
OFFS = [0, 1, -1, 2, -2]


def var_range(model: dict, v: int) -> Tuple[int, int]:
    lo, hi = model["shr"][model["idx"][v]]
    o = model["off"][v]
    return lo + o, hi + o


def gen_skeleton(ch: Choices, flavour: str, opts: dict) -> dict:
    max_space = opts.get("max_space", 4096)
    if flavour == "circuit" and ch.chance(1, 3, "circ.shared"):
        # successors that are views of FEWER shared domains (s_i = d + k): tying successors together is a legal way of
        # writing side conditions, and a shared domain then occurs several times in alldifferent / no_sub_cycle / scc
        n = 3 + ch.choose(3, "circ.n")  # 3..5
        m = 1 + ch.choose(n - 1, "circ.shared.m")
        shr = []
        for d in range(m):
            # a third of the shared domains are instantiated from the start (successors given in the instance): several
            # bounds of a tied domain then move in one and the same execution of a constraint
            w = 0 if ch.chance(1, 3, "circ.shared.single") else n - 1 - ch.choose(n, "circ.shared.w")
            a = ch.choose(5, "circ.shared.a") - 2
            shr.append([a, a + w])
        pairs = ch.chance(2, 3, "circ.shared.pairs")
        if pairs:
            # every shared domain carries two successors (the last one three when n is odd)
            n = [4, 4, 5][ch.choose(3, "circ.pairs.n")]
            m = n // 2
            shr = []
            for d in range(m):
                w = [0, 2, 1, 3][ch.choose(4, "circ.pairs.w")]
                a = ch.choose(3, "circ.pairs.a") - 1
                shr.append([a, a + min(w, n - 1)])
            order = ch.shuffle([d for d in range(m) for _ in range(2)] + ([m - 1] if n % 2 else []), "circ.pairs.order")
        idx, off = [], []
        for i in range(n):
            d = order[i] if pairs else i if i < m else ch.choose(m, "circ.shared.dom")
            a, b = shr[d]
            idx.append(d)
            off.append(-a + ch.choose(n - 1 - (b - a) + 1, "circ.shared.off"))
        return {"shr": shr, "idx": idx, "off": off, "props": []}
    if flavour == "circuit":
        n = 2 + ch.choose(4, "circ.n")  # 2..5
        shr = []
        for i in range(n):
            if ch.chance(1, 3, "circ.narrow"):
                lo = ch.choose(n, "circ.lo")
                hi = lo + ch.choose(n - lo, "circ.hi")
            else:
                lo, hi = 0, n - 1
            shr.append([lo, hi])
        return {"shr": shr, "idx": list(range(n)), "off": [0] * n, "props": []}
    if flavour == "bigcircuit":
        # 6..10 vertices: a successor vector (one cycle, or several cycles of any lengths over relabelled vertices) and
        # narrow intervals around it, so that the search space stays enumerable while the path bookkeeping of the
        # sub-cycle / connectivity constraints meets long paths merged in every index order
        n = 6 + ch.choose(5, "bc.n")
        labels = ch.shuffle(list(range(n)), "bc.labels")
        cuts = []
        if not ch.chance(1, 3, "bc.hamiltonian"):
            k = 1 + ch.choose(3, "bc.ncuts")
            cuts = sorted(set(2 + ch.choose(n - 3, "bc.cut") for _ in range(k)))
            cuts = [x for i, x in enumerate(cuts) if x <= n - 2 and (i == 0 or x - cuts[i - 1] >= 2)]
        succ = [0] * n
        start = 0
        for end in cuts + [n]:
            cyc = labels[start:end]
            for a, b in zip(cyc, cyc[1:] + cyc[:1]):
                succ[a] = b
            start = end
        shr = []
        for i in range(n):
            a = [0, 0, 1, 2][ch.choose(4, "bc.below")]
            b = [0, 0, 1, 2][ch.choose(4, "bc.above")]
            shr.append([max(0, succ[i] - a), min(n - 1, succ[i] + b)])
        while space_size(shr) > max_space:
            j = max(range(n), key=lambda i: shr[i][1] - shr[i][0])
            if shr[j][1] > succ[j]:
                shr[j][1] -= 1
            else:
                shr[j][0] += 1
        return {"shr": shr, "idx": list(range(n)), "off": [0] * n, "props": []}
    if flavour == "wide":
        # many shared domains of 1-3 values: long constraints on an enumerable space
        nshr = 5 + ch.choose(6, "wide.nshr")
        shr = []
        for i in range(nshr):
            size = [1, 2, 2, 3, 2][ch.choose(5, f"w{i}.size")]
            lo = LOWS[ch.choose(len(LOWS), f"w{i}.lo")]
            if opts.get("nonneg"):
                lo = abs(lo)
            shr.append([lo, lo + size - 1])
        while space_size(shr) > max_space:
            j = max(range(nshr), key=lambda i: shr[i][1] - shr[i][0])
            shr[j][1] -= 1
        idx = list(range(nshr))
        off = [0] * nshr
        for j in range(ch.choose(3, "wide.nextra")):
            idx.append(ch.choose(nshr, f"x{j}.dom"))
            o = OFFS[ch.choose(len(OFFS), f"x{j}.off")]
            if opts.get("nonneg") and shr[idx[-1]][0] + o < 0:
                o = 0
            off.append(o)
        return {"shr": shr, "idx": idx, "off": off, "props": []}
    nshr = 1 + ch.choose(opts.get("max_shr", 4), "nshr")
    shr = []
    for i in range(nshr):
        if flavour == "bool":
            k = ch.choose(4, f"d{i}.bool")
            shr.append([[0, 1], [0, 1], [0, 0], [1, 1]][k])
        else:
            size = SIZES[ch.choose(len(SIZES), f"d{i}.size")]
            lo = LOWS[ch.choose(len(LOWS), f"d{i}.lo")]
            if opts.get("nonneg"):
                lo = abs(lo)
            shr.append([lo, lo + size - 1])
    while space_size(shr) > max_space:
        # shrink the largest domain
        j = max(range(nshr), key=lambda i: shr[i][1] - shr[i][0])
        shr[j][1] -= 1
    idx = list(range(nshr))
    off = [0] * nshr
    extra = ch.choose(opts.get("max_extra", 3) + 1, "nextra")
    for j in range(extra):
        if len(idx) >= opts.get("max_vars", 6):
            break
        idx.append(ch.choose(nshr, f"x{j}.dom"))
        if flavour == "bool":
            off.append(0)
        else:
            o = OFFS[ch.choose(len(OFFS), f"x{j}.off")]
            if opts.get("nonneg") and shr[idx[-1]][0] + o < 0:
                o = 0
            off.append(o)
    return {"shr": shr, "idx": idx, "off": off, "props": []}


def pick_vars(ch: Choices, model: dict, k: int, alias: bool, pool: Optional[List[int]] = None) -> List[int]:
    pool = list(range(len(model["idx"]))) if pool is None else list(pool)
    if alias:
        return [pool[ch.choose(len(pool), "pv")] for _ in range(k)]
    out = []
    avail = pool[:]
    for _ in range(k):
        if not avail:
            avail = pool[:]
        out.append(avail.pop(ch.choose(len(avail), "pv")))
    return out


def small_int(ch: Choices, lo: int, hi: int, label: str) -> int:
    """value in [lo,hi] with the middle-ish 'natural' values first"""
    return lo + ch.choose(hi - lo + 1, label)


def gen_constraint(ch: Choices, model: dict, alg: str, opts: dict) -> Optional[list]:
    nv = len(model["idx"])
    alias = ch.chance(opts.get("alias_num", 1), 4, "alias") if opts.get("alias", True) else False
    rng = lambda v: var_range(model, v)

    def arity(lo, hi):
        if opts.get("stretch"):
            hi = max(hi, opts["stretch"])  # wide models: every constraint type may span many variables
        hi = min(hi, opts.get("max_arity", 4))
        if not alias:
            hi = min(hi, nv)
        if hi < lo:
            return None
        return lo + ch.choose(hi - lo + 1, "arity")

    if alg in ("affine_eq", "affine_geq", "affine_leq"):
        n = arity(1, 4)
        if n is None:
            return None
        vs = pick_vars(ch, model, n, alias)
        coefs = []
        for _ in range(n):
            c = [1, -1, 2, -2, 0, 3][ch.choose(6 if opts.get("zero_coef", True) else 4, "coef")]
            coefs.append(c)
        lo = sum(min(c * rng(v)[0], c * rng(v)[1]) for c, v in zip(coefs, vs))
        hi = sum(max(c * rng(v)[0], c * rng(v)[1]) for c, v in zip(coefs, vs))
        k = small_int(ch, lo - 1, hi + 1, "const")
        return [vs, alg, coefs + [k]]
    if alg == "alldifferent":
        n = arity(2, max(5, opts.get("max_arity", 4)))
        if n is None:
            return None
        return [pick_vars(ch, model, n, alias), alg, []]
    if alg == "count_eq":
        n = arity(2, 5)
        if n is None:
            return None
        vs = pick_vars(ch, model, n, alias)
        lo = min(rng(v)[0] for v in vs[:-1])
        hi = max(rng(v)[1] for v in vs[:-1])
        return [vs, alg, [small_int(ch, lo - 1, hi + 1, "a")]]
    if alg == "exactly_eq":
        n = arity(1, 5)
        if n is None:
            return None
        vs = pick_vars(ch, model, n, alias)
        lo = min(rng(v)[0] for v in vs)
        hi = max(rng(v)[1] for v in vs)
        return [vs, alg, [small_int(ch, lo - 1, hi + 1, "a"), ch.choose(n + 1, "c")]]
    if alg == "exactly_true":
        pool = [v for v in range(nv) if rng(v)[0] >= 0 and rng(v)[1] <= 1]
        if not pool:
            return None
        n = 1 + ch.choose(min(4, len(pool) if not alias else 4), "arity")
        vs = pick_vars(ch, model, n, alias, pool)
        return [vs, alg, [ch.choose(n + 1, "c")]]
    if alg == "and":
        pool = [v for v in range(nv) if rng(v)[0] >= 0 and rng(v)[1] <= 1]
        if len(pool) < (1 if alias else 2):
            return None
        n = 2 + ch.choose(min(3, (len(pool) - 1) if not alias else 3), "arity")
        return [pick_vars(ch, model, n, alias, pool), alg, []]
    if alg == "element_iv":
        if nv < 2 and not alias:
            return None
        vs = pick_vars(ch, model, 2, alias)
        ln = 1 + ch.choose(4, "len")
        lo, hi = rng(vs[1])
        l = [small_int(ch, lo - 1, hi + 1, "l") for _ in range(ln)]
        return [vs, alg, l]
    if alg == "element_lic":
        n = arity(2, 5)
        if n is None:
            return None
        vs = pick_vars(ch, model, n, alias)
        lo = min(rng(v)[0] for v in vs[:-1])
        hi = max(rng(v)[1] for v in vs[:-1])
        return [vs, alg, [small_int(ch, lo - 1, hi + 1, "c")]]
    if alg == "element_liv":
        n = arity(3, 5)
        if n is None:
            return None
        return [pick_vars(ch, model, n, alias), alg, []]
    if alg == "lexicographic_leq":
        half = 1 + ch.choose(max(3, opts.get("stretch", 0) // 2), "half")
        while half > 1 and not alias and 2 * half > nv:
            half -= 1
        if not alias and nv < 2:
            return None
        return [pick_vars(ch, model, 2 * half, alias), alg, []]
    if alg in ("max_eq", "max_leq", "min_eq", "min_geq"):
        n = arity(2, 4)
        if n is None:
            return None
        return [pick_vars(ch, model, n, alias), alg, []]
    if alg == "relation":
        n = arity(1, 3)
        if n is None:
            return None
        vs = pick_vars(ch, model, n, alias)
        k = 1 + ch.choose(4, "ntuples")
        params = []
        for _ in range(k):
            if params and ch.chance(1, 6, "rel.repeat"):
                params.extend(params[-n:])
                continue
            for v in vs:
                lo, hi = rng(v)
                params.append(small_int(ch, lo - (1 if ch.chance(1, 5, "rel.out") else 0), hi, "rel.val"))
        return [vs, alg, params]
    if alg == "gcc":
        n = arity(1, max(5, opts.get("max_arity", 4)))
        if n is None:
            return None
        vs = pick_vars(ch, model, n, alias)
        lo = min(rng(v)[0] for v in vs) - ch.choose(2, "gcc.padlo")
        hi = max(rng(v)[1] for v in vs) + ch.choose(2, "gcc.padhi")
        m = hi - lo + 1
        lows, ups = [], []
        zero_cap = opts.get("gcc_zero_cap", True)
        for _ in range(m):
            u = ch.choose(n + 1, "gcc.u") if zero_cap else 1 + ch.choose(n, "gcc.u")
            # simplest (0) should be a generous capacity: map 0 -> n
            u = n - u if zero_cap else n + 1 - u
            l = ch.choose(min(u, 2) + 1, "gcc.l")
            lows.append(l)
            ups.append(u)
        return [vs, alg, [lo] + lows + ups]
    if alg == "dummy":
        n = arity(1, 3)
        if n is None:
            return None
        return [pick_vars(ch, model, n, alias), alg, []]
    raise ValueError(alg)


def pad_model(model: dict, pad: int) -> dict:
    """Prepend `pad` instantiated, unconstrained shared domains (and their variables): the search is unchanged but
    every real domain / variable index moves beyond `pad` (8-bit and 16-bit index widths of the engine)."""
    m = dict(model)
    m["shr"] = [[0, 0] for _ in range(pad)] + [list(d) for d in model["shr"]]
    m["idx"] = list(range(pad)) + [i + pad for i in model["idx"]]
    m["off"] = [0] * pad + list(model["off"])
    m["props"] = [[[v + pad for v in vs], alg, list(params)] for vs, alg, params in model["props"]]
    return m


def magnify(ch: Choices, model: dict, probes=None) -> dict:
    """Magnitude: the parameters of the linear constraints near the top of the documented 32 bits.  (a) the
    coefficients and the constant of every linear constraint multiplied by a large factor - the meaning is unchanged,
    every parameter still fits 32 bits, the products a_i * x_i no longer do; (b) one more equality f * x = f * k with f
    = 2^28..2^30.  The engine has to compute such products in 64 bits, compiled (numba promotes) and interpreted
    (numpy 32-bit scalars do not: repaired by fix 701db87, DESIGN.md 8.2)."""
    out = model
    if ch.chance(1, 5, "magnitude") and any(p[1].startswith("affine_") for p in model["props"]):
        big = max(max(abs(a) for a in p[2]) for p in model["props"] if p[1].startswith("affine_")) or 1
        lim = ((1 << 31) - 1) // big
        p2 = 1 << (lim.bit_length() - 1)  # with a power of two, a product that wraps is off by a small multiple of f
        f = max(1, [p2, p2 >> 1, p2 >> 2, lim, 65537, 1 << 16][ch.choose(6, "magnitude.f")])
        out = dict(out, props=[[vs, alg, [a * f for a in prm] if alg.startswith("affine_") else list(prm)] for vs, alg, prm in out["props"]])
        if probes is not None:
            probes["large_magnitude_models"] += 1
    if ch.chance(1, 12, "magnitude.unary"):
        sh = 28 + ch.choose(3, "magnitude.unary.shift")
        m_ = 1 << (32 - sh)
        k_ = ch.choose(m_, "magnitude.unary.k") - m_ // 2
        v_ = ch.choose(len(model["idx"]), "magnitude.unary.v")
        out = dict(out, props=list(out["props"]) + [[[v_], "affine_eq", [1 << sh, (1 << sh) * k_]]])
        if probes is not None:
            probes["large_magnitude_models"] += 1
    return farshift(ch, out, probes)


FAR = [1 << 30, -(1 << 30), (1 << 30) + (1 << 29), -(1 << 30) - (1 << 29), (1 << 30) - 3, -(1 << 30) + 2]
TRANSLATION_INVARIANT = ("alldifferent", "lexicographic_leq", "max_eq", "max_leq", "min_eq", "min_geq", "dummy",
                         "relation", "exactly_eq")


def farshift(ch: Choices, model: dict, probes=None) -> dict:
    """Domain magnitude: bounds near 2^30 in absolute value (each fits the documented 32 bits with room to spare; the
    sum of two of them does not).  (a) shared domains moved by K with the offsets of their variables moved by -K: no
    variable changes its values, so no constraint sees a difference, but the search heuristics work on the shared
    domains (`(min + max) // 2` of split-low / mid-value, `max - min` of the variable heuristics) and the engine adds
    the offsets back for the propagators.  (b) the variables themselves moved by K when every constraint of the model
    commutes with a translation (relation tuples and the counted value of exactly_eq moved along; other constraints are
    dropped from the model, at least one is kept): the propagators then work on large values.  The compiled engine
    computes such sums in 64 bits; numpy 32-bit scalars (JIT disabled) wrap."""
    padded = bool(model.get("padded"))
    if model.get("flavour") in ("circuit", "bigcircuit") or not ch.chance(1, 2 if padded else 6, "far"):
        return model
    K = FAR[ch.choose(len(FAR), "far.k")]
    if ch.chance(1, 2 if padded else 5, "far.moderate") and nonneg_model(model):
        # moderate magnitude: the model stays one that the cost heuristics accept, but their tables get hundreds of
        # columns - with hundreds of (padding) rows, row * width no longer fits 16 bits
        K = [250, 1000, 300][ch.choose(3, "far.moderate.k")]
    n = len(model["shr"])
    out = dict(model)
    inv = [p for p in model["props"] if p[1] in TRANSLATION_INVARIANT]
    if inv and K > 2000 and ch.chance(1, 3, "far.values"):
        out["shr"] = [[lo + K, hi + K] for lo, hi in model["shr"]]
        props = []
        for vs, alg, prm in inv:
            if alg == "relation":
                prm = [a + K for a in prm]
            elif alg == "exactly_eq":
                prm = [prm[0] + K] + list(prm[1:])
            props.append([list(vs), alg, list(prm)])
        out["props"] = props
        if probes is not None:
            probes["far_value_models"] += 1
    else:
        which = [True] * n if ch.chance(1, 2, "far.all") else [ch.chance(1, 2, "far.dom") for _ in range(n)]
        out["shr"] = [[lo + K, hi + K] if which[d] else [lo, hi] for d, (lo, hi) in enumerate(model["shr"])]
        out["off"] = [o - K if which[model["idx"][v]] else o for v, o in enumerate(model["off"])]
        if probes is not None and any(which):
            probes["far_shared_domain_models"] += 1
    out["far"] = True
    return out


def wide_table_model(ch: Choices) -> dict:
    """y = table[x] with table values up to +-1.2 x 2^30 of BOTH signs (each fits 32 bits; a difference of two of them
    does not), y's domain the hull of the table - wider than 2^31 values - and possibly a second index variable tied to
    x.  The natural objective of an optimisation; the reference derives y from the table (refmodel.iter_box_model)."""
    k = 2 + ch.choose(4, "wt.k")
    big = [(1 << 30) + (1 << 28), -(1 << 30) - (1 << 28), 1 << 30, -(1 << 30), (1 << 31) - 5, -(1 << 31) + 5]
    table = []
    for _ in range(k):
        if ch.chance(1, 2, "wt.big"):
            table.append(big[ch.choose(len(big), "wt.bigv")] + ch.choose(3, "wt.jit") - 1)
        else:
            table.append(ch.choose(15, "wt.small") - 7)
    if max(table) - min(table) < (1 << 31):
        table[0], table[-1] = big[0] + ch.choose(3, "wt.jit0"), big[1] - ch.choose(3, "wt.jit1")
    lo = 0 - ch.choose(2, "wt.xlo")  # the index may overhang the table
    hi = k - 1 + ch.choose(2, "wt.xhi")
    model = {"shr": [[lo, hi], [min(table), max(table)]], "idx": [0, 1], "off": [0, 0],
             "props": [[[0, 1], "element_iv", list(table)]], "flavour": "wide_table"}
    if ch.chance(1, 2, "wt.extra"):
        model["shr"].append([0, 2])
        model["idx"].append(2)
        model["off"].append(0)
        model["props"].append([[0, 2], ["affine_leq", "affine_geq"][ch.choose(2, "wt.extra.t")], [1, -1, ch.choose(3, "wt.extra.c") - 1]])
    if ch.chance(1, 3, "wt.swap"):
        # the wide variable listed first
        model["shr"][0], model["shr"][1] = model["shr"][1], model["shr"][0]
        model["idx"][0], model["idx"][1] = 1, 0
    return model


def R_space(shr) -> int:
    n = 1
    for lo, hi in shr:
        n *= hi - lo + 1
    return n


def gen_model(ch: Choices, opts: Optional[dict] = None) -> dict:
    opts = dict(opts or {})
    if opts.get("pad_chance") and ch.chance(1, opts["pad_chance"], "pad"):
        pad = [254, 255, 256, 257, 300][ch.choose(5, "pad.n")]
        m = gen_model(ch, dict(opts, pad_chance=0))
        fl = m.get("flavour")
        if fl == "circuit":
            return m  # successor values are indices: padding would change the meaning
        m = pad_model(m, pad)
        m["flavour"] = fl
        m["padded"] = pad
        return m
    fl = ch.weighted(opts.get("flavour_weights", [16, 4, 4, 1, 1]), "flavour")
    flavour = ["general", "bool", "circuit", "bigcircuit", "wide"][fl]
    if opts.get("nonneg") is None and ch.chance(1, 4, "nonneg"):
        opts["nonneg"] = True
    if flavour == "wide":
        opts["max_arity"] = max(opts.get("max_arity", 4), 10)
        opts["stretch"] = 4 + ch.choose(5, "wide.stretch")
    model = gen_skeleton(ch, flavour, opts)
    model["flavour"] = flavour
    types = opts.get("types")
    if flavour == "bigcircuit":
        flavour = "circuit"
    if flavour == "circuit":
        n = len(model["idx"])
        vs = list(range(n))
        model["props"].append([vs, "alldifferent", []])
        model["props"].append([vs, "no_sub_cycle", []])
        if ch.chance(1, 3, "circ.scc"):
            model["props"].append([vs, "scc", []])
        if ch.chance(1, 3, "circ.dup"):
            model["props"].append([vs, "no_sub_cycle", []])
        if ch.chance(1, 3, "circ.extra"):
            t = ch.pick(["affine_leq", "max_leq", "element_iv", "exactly_eq", "lexicographic_leq"], "circ.extra.t")
            c = gen_constraint(ch, model, t, dict(opts, alias=False))
            if c:
                model["props"].append(c)
        if ch.chance(1, 3, "circ.views"):
            # side constraints over VIEWS of the successors (s_i + k, several views of one successor, a free variable):
            # a successor domain then occurs at several positions of one constraint and can become a single value only
            # as the intersection of what the positions computed - while the circuit constraints, which wait for
            # instantiations, watch the same domain
            for _ in range(1 + ch.choose(3, "circ.views.n")):
                model["idx"].append(ch.choose(len(model["shr"]), "circ.views.dom"))
                model["off"].append(ch.choose(5, "circ.views.off"))
            if ch.chance(1, 2, "circ.views.free"):
                lo = ch.choose(6, "circ.views.free.lo")
                model["shr"].append([lo, lo + ch.choose(3, "circ.views.free.size")])
                model["idx"].append(len(model["shr"]) - 1)
                model["off"].append(0)
            views = list(range(n, len(model["idx"])))
            for k_ in range(1 + ch.choose(2, "circ.views.nc")):
                with ch.scope(f"cv{k_}"):
                    t = ch.pick(["alldifferent", "affine_eq", "affine_leq", "max_eq", "min_eq", "lexicographic_leq",
                                 "element_liv", "count_eq", "max_leq", "min_geq", "affine_geq"], "t")
                    c = gen_constraint(ch, model, t, dict(opts, alias=True, alias_num=2))
                    if c and not any(v in views for v in c[0]):
                        c[0][ch.choose(len(c[0]), "force")] = views[ch.choose(len(views), "force.v")]
                    if c:
                        model["props"].append(c)
            model["circuit_views"] = len(views)
        model["props"] = ch.shuffle(model["props"], "circ.order") if ch.chance(1, 2, "circ.shuffle") else model["props"]
        return model
    pool = [t for t in (types or ALL_TYPES) if (flavour == "bool" or t not in BOOL_TYPES or True)]
    if flavour == "bool" and not types:
        pool = BOOL_TYPES + ["exactly_eq", "count_eq", "affine_leq", "lexicographic_leq", "max_eq", "relation"]
    # a random subset of types is enabled per run (swarm)
    if not types and ch.chance(1, 2, "swarm"):
        k = 1 + ch.choose(3, "swarm.k")
        pool = [pool[ch.choose(len(pool), "swarm.t")] for _ in range(k)]
    nprops = opts.get("min_props", 1) + ch.choose(opts.get("max_props", 3) - opts.get("min_props", 1) + 1, "nprops")
    tries = 0
    while len(model["props"]) < nprops and tries < 12:
        tries += 1
        with ch.scope(f"c{len(model['props'])}"):
            t = pool[ch.choose(len(pool), "type")]
            c = gen_constraint(ch, model, t, opts)
        if c is not None:
            model["props"].append(c)
    if opts.get("custom_checker") and len(model["idx"]) >= 2 and ch.chance(1, 5, "checker"):
        # a registered checking constraint x != y that listens to instantiations only (nucsio.register_custom)
        for _ in range(1 + ch.choose(2, "checker.n")):
            model["props"].append([pick_vars(ch, model, 2, ch.chance(1, 3, "checker.alias")), "ground_neq", []])
    if ch.chance(1, 12, "orphan"):
        # a shared domain that no variable refers to (a Problem built with explicit indices may skip one, and
        # add_variable always appends the domain it is given, even for a view): it is a decision domain like any
        # other, so every assignment of the variables is delivered once per value of it
        lo = ch.choose(4, "orphan.lo") - 1
        dom = [lo, lo + ch.choose(3, "orphan.size")]
        at = ch.choose(len(model["shr"]) + 1, "orphan.at")
        if R_space(model["shr"]) * (dom[1] - dom[0] + 1) <= opts.get("max_space", 4096):
            model["shr"].insert(at, dom)
            model["idx"] = [i if i < at else i + 1 for i in model["idx"]]
            model["orphan_domain"] = at
    if ch.chance(1, 4, "var_order"):
        # the variables are listed in another order than their shared domains (variable i need not sit on domain i)
        nv = len(model["idx"])
        perm = ch.shuffle(list(range(nv)), "var_order.perm")  # new position p holds old variable perm[p]
        pos = {old: p for p, old in enumerate(perm)}
        model["idx"] = [model["idx"][old] for old in perm]
        model["off"] = [model["off"][old] for old in perm]
        model["props"] = [[[pos[v] for v in vs], alg, params] for vs, alg, params in model["props"]]
    return model


# ------------------------------------------------------------------------------------------------ configurations
def nonneg_model(model: dict) -> bool:
    # cost tables have one entry per value of [0, max value]: models with far-away domains (gen.farshift) do not use
    # the heuristics that need them
    return all(lo >= 0 and hi < (1 << 16) for lo, hi in model["shr"])


def expand_table(t):
    """A cost table given by rule: {"rule": [rows, width, a, b, zero]} -> cost(d, v) = 1 + (a*d + b*v) % 3, with cost
    0 (a value the cost heuristics skip) at column (d + zero) % width of each row when zero >= 0."""
    if not isinstance(t, dict):
        return t
    rows, width, a, b, zero = t["rule"]
    out = []
    for d in range(rows):
        r = [1 + (a * d + b * v) % 3 for v in range(width)]
        if zero >= 0:
            r[(d + zero) % width] = 0
        out.append(r)
    return out


def cost_table(ch: Choices, model: dict, label: str):
    width = max(hi for lo, hi in model["shr"]) + 1
    if width * len(model["shr"]) > 4000:
        # a large table is described by a rule (one choice, not one per cell; a replay file stays small)
        return {"rule": [len(model["shr"]), width, 1 + ch.choose(5, label + ".a"), 1 + ch.choose(7, label + ".b"),
                         ch.choose(width, label + ".zero.at") if ch.chance(1, 3, label + ".zero") else -1]}
    rows = []
    for _ in model["shr"]:
        rows.append([1 + ch.choose(3, label) for _ in range(width)])  # strictly positive, ties frequent
    if ch.chance(1, 3, label + ".zero"):
        # like the null diagonal of the shipped TSP cost matrices: the cost heuristics skip non-positive costs; at most
        # one such value per row, so that a domain that can still be branched on always has a priced value
        for r in rows:
            r[ch.choose(width, label + ".zero.at")] = 0
    return rows


def gen_config(ch: Choices, model: dict, opts: Optional[dict] = None) -> dict:
    opts = opts or {}
    nn = nonneg_model(model)
    cons = ch.choose(2, "cfg.cons") if opts.get("shaving", True) else 0
    var_h = ch.choose(4 if nn else 3, "cfg.var")
    dom_h = ch.choose(5 if nn else 4, "cfg.dom")
    if nn and len(model["shr"]) > 200 and ch.chance(1, 2, "cfg.cost.tall"):
        var_h, dom_h = [(3, 4), (0, 4), (3, 0), (1, 4)][ch.choose(4, "cfg.cost.tall.k")]  # tall tables get used
    cfg = {"cons": cons, "var_h": var_h, "dom_h": dom_h, "var_params": [[]], "dom_params": [[]]}
    if var_h == 3:
        cfg["var_params"] = cost_table(ch, model, "cfg.varcost")
    if dom_h == 4:
        cfg["dom_params"] = cost_table(ch, model, "cfg.domcost")
    if opts.get("decision", True):
        # every domain stays a decision domain, but the list is given in another order (it is the order in which the
        # variable heuristics scan), or without the domains that are singletons in the model (nothing to decide there)
        dd = ch.choose(4, "cfg.dd")
        n = len(model["shr"])
        if dd >= 2 and n >= 2:
            if n <= 12:
                doms = ch.shuffle(list(range(n)), "cfg.dd.perm")
            else:
                r = ch.choose(n, "cfg.dd.rot")
                doms = list(range(r, n)) + list(range(r))
                if ch.chance(1, 2, "cfg.dd.rev"):
                    doms.reverse()
            if dd == 3:
                doms = [d for d in doms if model["shr"][d][0] < model["shr"][d][1]] or doms
            cfg["decision"] = doms
    return cfg


def cfg_str(cfg: dict) -> str:
    s = f"({cfg['cons']}, {cfg['var_h']}, {cfg['dom_h']})"
    if cfg.get("decision") is not None:
        d = cfg["decision"]
        s += f" decision_domains={d if len(d) <= 16 else str(d[:8])[:-1] + ', ...] (' + str(len(d)) + ')'}"
    return s


DEFAULT_CONFIG = {"cons": 0, "var_h": 0, "dom_h": 0, "var_params": [[]], "dom_params": [[]]}


def all_configs(model: dict) -> List[Tuple[int, int, int]]:
    nn = nonneg_model(model)
    return [(c, v, d) for c in range(2) for v in range(4 if nn else 3) for d in range(5 if nn else 4)]


def permute_props(ch: Choices, model: dict, label: str = "post.order") -> Tuple[dict, List[int]]:
    n = len(model["props"])
    order = ch.shuffle(list(range(n)), label)
    m = dict(model)
    m["props"] = [model["props"][i] for i in order]
    return m, order


def render_model(model: dict) -> str:
    vs = ", ".join(
        f"v{i}=d{d}{o:+d}" if o else f"v{i}=d{d}" for i, (d, o) in enumerate(zip(model["idx"], model["off"]))
    )
    ps = "; ".join(f"{alg}({vs_},{p})" for vs_, alg, p in model["props"])
    return f"shr={model['shr']} vars[{vs}] props[{ps}]"
