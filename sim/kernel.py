"""Choice-trace kernel: one integer -> one exactly repeatable run.

Every decision of a simulated run (generated model, configuration, schedule, fault) is drawn through
Choices.choose(n, label).  In generate mode the values come from random.Random(seed) and are recorded; in
replay mode they are read back from a recorded trace (clamped to the range, padded with 0).  0 is always the
simplest alternative, so truncating / zeroing a trace simplifies the scenario; `shrink` exploits that.
Nothing in here reads a clock or hash().
"""
from __future__ import annotations

import hashlib
import json
import os
import random
from typing import Callable, List, Optional, Sequence, Tuple

Trace = List[Tuple[str, int, int]]

MASK63 = (1 << 63) - 1


def mix_seed(base: int, salt: int, run: int) -> int:
    """Fixed arithmetic mixing (never hash())."""
    x = (base * 6364136223846793005 + 1442695040888963407) & MASK63
    x ^= (salt * 0x9E3779B97F4A7C15) & MASK63
    x = (x * 6364136223846793005 + run * 2862933555777941757 + 3037000493) & MASK63
    x ^= x >> 29
    return x & MASK63


class Choices:
    """Replay is per label: every label owns its own stream of recorded values (in trace order), so deleting or
    shrinking one decision never shifts the meaning of the values recorded for other labels.  The normalised trace
    of a run is the ordered list of the choices it actually consumed."""

    def __init__(self, seed: Optional[int] = None, trace: Optional[Sequence[Sequence]] = None):
        self.seed = seed
        self.replaying = trace is not None
        self.src = {}
        self.ptr = {}
        if trace is not None:
            for t in trace:
                self.src.setdefault(t[0], []).append(int(t[2]))
        self.rng = random.Random(seed if seed is not None else 0)
        self.rec: Trace = []
        self.prefix = ""

    def scope(self, name: str):
        return _Scope(self, name)

    def choose(self, n: int, label: str = "") -> int:
        if n <= 1:
            return 0
        label = self.prefix + label
        if self.replaying:
            q = self.src.get(label)
            i = self.ptr.get(label, 0)
            v = q[i] if q is not None and i < len(q) else 0
            self.ptr[label] = i + 1
            if v >= n:
                v = n - 1
            if v < 0:
                v = 0
        else:
            v = self.rng.randrange(n)
        self.rec.append((label, n, v))
        return v

    def fixed(self, n: int, label: str, value: Optional[int]) -> int:
        """An enumerated (not drawn) decision: recorded like a choice so that replay files stay self-contained."""
        if self.replaying or value is None:
            return self.choose(n, label)
        label = self.prefix + label
        v = max(0, min(n - 1, int(value)))
        self.rec.append((label, n, v))
        return v

    # helpers, all expressed through choose so that 0 stays "simplest"
    def chance(self, num: int, den: int, label: str = "") -> bool:
        """True with probability num/den; the replay value 0 means False."""
        if num <= 0:
            return False
        if num >= den:
            return True
        return self.choose(den, label) >= den - num

    def randint(self, lo: int, hi: int, label: str = "") -> int:
        return lo + self.choose(hi - lo + 1, label)

    def pick(self, seq: Sequence, label: str = ""):
        return seq[self.choose(len(seq), label)]

    def weighted(self, weights: Sequence[int], label: str = "") -> int:
        tot = sum(weights)
        v = self.choose(tot, label)
        acc = 0
        for i, w in enumerate(weights):
            acc += w
            if v < acc:
                return i
        return len(weights) - 1

    def shuffle(self, seq: list, label: str = "") -> list:
        out = list(seq)
        for i in range(len(out) - 1):
            j = i + self.choose(len(out) - i, label)
            out[i], out[j] = out[j], out[i]
        return out

    def trace(self) -> List[List]:
        return [[l, n, v] for (l, n, v) in self.rec]


class _Scope:
    def __init__(self, ch, name):
        self.ch, self.name = ch, name

    def __enter__(self):
        self.saved = self.ch.prefix
        self.ch.prefix = self.saved + self.name + "."
        return self.ch

    def __exit__(self, *a):
        self.ch.prefix = self.saved
        return False


def sha(obj) -> str:
    return hashlib.sha256(json.dumps(obj, sort_keys=True, default=str).encode()).hexdigest()


def shrink(
    trace: List[List],
    still_fails: Callable[[List[List]], Optional[List[List]]],
    max_evals: int = 300,
    max_seconds: float = 1e9,
) -> Tuple[List[List], int]:
    """Shrink a choice trace while `still_fails(candidate)` returns the normalised trace of a run that shows the
    same violation class (None otherwise).  Returns (trace, evaluations used)."""
    import time as _time

    evals = 0
    best = [list(t) for t in trace]
    t_end = _time.time() + max_seconds  # wall cap: only bounds how far minimisation goes, never what is reported

    def attempt(cand):
        nonlocal evals, best
        if evals >= max_evals:
            return False
        if _time.time() > t_end:
            evals = max_evals
            return False
        evals += 1
        got = still_fails(cand)
        if got is not None:
            # accept only if not longer / not larger
            if (len(got), sum(t[2] for t in got)) <= (len(best), sum(t[2] for t in best)):
                best = [list(t) for t in got]
                return True
        return False

    def zero_pass():
        nonlocal best
        any_ = False
        # zero whole blocks first (cheap big simplifications), then single values
        size = max(1, len(best) // 2)
        while size >= 1 and evals < max_evals:
            i = 0
            while i < len(best) and evals < max_evals:
                if any(t[2] for t in best[i : i + size]):
                    cand = [list(t) for t in best]
                    for t in cand[i : i + size]:
                        t[2] = 0
                    if attempt(cand):
                        any_ = True
                i += size
            size //= 2
        return any_

    def delete_pass():
        any_ = False
        size = max(1, len(best) // 2)
        while size >= 1 and evals < max_evals:
            i = 0
            while i < len(best) and evals < max_evals:
                cand = best[:i] + best[i + size :]
                if len(cand) < len(best) and attempt(cand):
                    any_ = True
                else:
                    i += size
            size //= 2
        return any_

    def truncate_pass():
        any_ = False
        lo, hi = 0, len(best)
        while lo < hi and evals < max_evals:
            mid = (lo + hi) // 2
            if attempt(best[:mid]):
                hi = min(mid, len(best))
                any_ = True
            else:
                lo = mid + 1
        return any_

    def reduce_pass():
        any_ = False
        i = 0
        while i < len(best) and evals < max_evals:
            v = best[i][2]
            if v > 1:
                for nv in (v // 2, v - 1):
                    cand = [list(t) for t in best]
                    cand[i][2] = nv
                    if attempt(cand):
                        any_ = True
                        break
            i += 1
        return any_

    improved = True
    while improved and evals < max_evals:
        improved = False
        for p in (truncate_pass, zero_pass, delete_pass, reduce_pass):
            if p():
                improved = True
    return best, evals


def write_replay(root: str, prop: str, payload: dict) -> str:
    d = os.path.join(root, "replays", prop)
    os.makedirs(d, exist_ok=True)
    digest = sha(payload.get("trace"))[:16]
    path = os.path.join(d, f"{payload.get('family', 'x')}-{digest}.json")
    with open(path, "w") as f:
        json.dump(payload, f, indent=1, default=str)
    return path
