"""Executes one operation history in ONE interpreter and prints one JSON line per operation (E4 / C15).

Usage: python histworker.py <repo> <verif root> <json spec>; mode (compiled / interpreted) comes from the environment.
spec = {"models": [model dicts], "ops": [op dicts]}.  Observables: ordered solution lists and the 13 statistics."""
import json
import os
import sys


def main():
    repo, root, spec = sys.argv[1], sys.argv[2], json.loads(sys.argv[3])
    sys.path.insert(0, root)
    sys.path.insert(0, repo)
    import logging

    logging.disable(logging.CRITICAL)
    import numpy as np
    from numba import njit

    from nucs.constants import EVENT_MASK_MIN_MAX, MAX, MIN, PROP_CONSISTENCY, PROP_INCONSISTENCY
    from sim import nucsio

    if spec.get("alloc") is not None and os.environ.get("NUMBA_DISABLE_JIT"):
        # never-written memory comes back with the contents the simulator chose for this run (seams.dirty_allocator)
        from sim import seams

        seams.install_allocator()
        a = spec["alloc"]
        seams._Alloc.pattern = tuple(a) if isinstance(a, list) else a
    models = spec["models"]
    problems = {}  # model index -> reused Problem object
    solvers = {}  # solver name -> (solver, generator)
    custom = {}

    def problem_for(op):
        m = op["model"]
        if op.get("reuse_problem") and m in problems:
            return problems[m]
        p = nucsio.build_problem(models[m])
        problems[m] = p
        return p

    def cfg_of(op):
        return dict(op["cfg"], caller_buffer=True) if op.get("caller_buffer") else op["cfg"]

    def stats(s):
        return {k: int(v) for k, v in s.get_statistics().items()}

    def sol(x):
        return None if x is None else [int(v) for v in x]

    for op in spec["ops"]:
        kind = op["kind"]
        try:
            if kind == "new_solver":
                s = nucsio.build_solver(problem_for(op), cfg_of(op))
                solvers[op["name"]] = [s, None]
                obs = {"ok": True}
            elif kind == "take":
                ent = solvers[op["name"]]
                if ent[1] is None:
                    ent[1] = ent[0].solve()
                got = []
                for _ in range(op["n"]):
                    x = next(ent[1], None)
                    if x is None:
                        break
                    got.append(sol(x))
                obs = {"solutions": got, "stats": stats(ent[0])}
            elif kind == "abandon":
                solvers.pop(op["name"], None)
                obs = {"ok": True}
            elif kind == "find_all":
                s = nucsio.build_solver(problem_for(op), cfg_of(op), stack_max_height=op.get("height", 128))
                obs = {"solutions": [sol(x) for x in s.find_all()], "stats": stats(s)}
            elif kind == "optimize":
                s = nucsio.build_solver(problem_for(op), cfg_of(op))
                r = s.minimize(op["var"]) if op["dir"] == "min" else s.maximize(op["var"])
                obs = {"solutions": [sol(r)], "stats": stats(s)}
            elif kind == "split_solve":
                p = problem_for(op)
                parts = p.split(op["k"], op["var"])
                out = []
                st = []
                for sp in parts:
                    s = nucsio.build_solver(sp, cfg_of(op))
                    out.append([sol(x) for x in s.find_all()])
                    st.append(stats(s))
                obs = {"solutions": out, "stats": st, "domains": [list(map(list, sp.shr_domains_lst)) for sp in parts]}
            elif kind == "register":
                what = op["what"]
                if what == "propagator" and "prop" not in custom:
                    import nucs.propagators.propagators as P

                    def get_triggers_leq2(n, parameters):
                        return np.full(n, dtype=np.uint8, fill_value=EVENT_MASK_MIN_MAX)

                    def get_complexity_leq2(n, parameters):
                        return 2.0

                    @njit(cache=False)
                    def compute_domains_leq2(domains, parameters):
                        if domains[0, MIN] > domains[1, MAX]:
                            return PROP_INCONSISTENCY
                        domains[0, MAX] = min(domains[0, MAX], domains[1, MAX])
                        domains[1, MIN] = max(domains[1, MIN], domains[0, MIN])
                        return PROP_CONSISTENCY

                    custom["prop"] = P.register_propagator(get_triggers_leq2, get_complexity_leq2, compute_domains_leq2)
                elif what == "dom_heuristic":
                    import nucs.heuristics.heuristics as H

                    flavour = op.get("flavour", 0)
                    if flavour == 0:
                        f = H.max_value_dom_heuristic
                    else:
                        # two DIFFERENT functions made by one factory (same module, same qualified name)
                        def make_dom_heuristic(use_max):
                            @njit(cache=False)
                            def factory_dom_heuristic(params, stack, ne, dus, top, dom_idx):
                                if use_max:
                                    return H.max_value_dom_heuristic(params, stack, ne, dus, top, dom_idx)
                                return H.min_value_dom_heuristic(params, stack, ne, dus, top, dom_idx)

                            return factory_dom_heuristic

                        f = make_dom_heuristic(flavour == 2)
                    custom.setdefault("dom_h", []).append(H.register_dom_heuristic(f))
                elif what == "var_heuristic":
                    import nucs.heuristics.heuristics as H

                    custom.setdefault("var_h", []).append(H.register_var_heuristic(H.smallest_domain_var_heuristic))
                elif what == "consistency":
                    import nucs.solvers.consistency_algorithms as CA
                    from nucs.solvers.bound_consistency_algorithm import bound_consistency_algorithm

                    custom.setdefault("cons", []).append(CA.register_consistency_algorithm(bound_consistency_algorithm))
                obs = {"ok": True}
            elif kind == "use_custom":
                # x0 <= x1 through the registered custom propagator, on a fresh two-variable problem, solved with the
                # latest registered heuristics / consistency algorithm when there are any
                from nucs.problems.problem import Problem
                from nucs.solvers.backtrack_solver import BacktrackSolver

                p = Problem([(0, op["w"]), (0, op["w"]), (0, 1)])
                if "prop" in custom:
                    p.add_propagator(([0, 1], custom["prop"], []))
                kw = {}
                if not op.get("with_heuristics", True):
                    pass
                elif custom.get("dom_h") or custom.get("var_h") or custom.get("cons"):
                    pass
                if op.get("with_heuristics", True) and custom.get("dom_h"):
                    kw["dom_heuristic_idx"] = custom["dom_h"][-1]
                if op.get("with_heuristics", True) and custom.get("var_h"):
                    kw["var_heuristic_idx"] = custom["var_h"][-1]
                if op.get("with_heuristics", True) and custom.get("cons"):
                    kw["consistency_alg_idx"] = custom["cons"][-1]
                s = BacktrackSolver(p, log_level="ERROR", **kw)
                obs = {"solutions": [sol(x) for x in s.find_all()], "stats": stats(s)}
            elif kind == "example":
                name = op["name"]
                from nucs.solvers.backtrack_solver import BacktrackSolver

                if name == "queens":
                    from nucs.examples.queens.queens_problem import QueensProblem

                    s = BacktrackSolver(QueensProblem(op["n"]), log_level="ERROR")
                    obs = {"solutions": [sol(x) for x in s.find_all()], "stats": stats(s)}
                elif name == "golomb":
                    from nucs.examples.golomb.golomb_problem import GolombProblem, golomb_consistency_algorithm
                    from nucs.solvers.consistency_algorithms import register_consistency_algorithm

                    pb = GolombProblem(op["n"], True)
                    idx = register_consistency_algorithm(golomb_consistency_algorithm)
                    s = BacktrackSolver(pb, consistency_alg_idx=idx, log_level="ERROR")
                    r = s.minimize(pb.length_idx)
                    obs = {"solutions": [sol(r)], "stats": stats(s)}
                else:
                    from nucs.examples.magic_sequence.magic_sequence_problem import MagicSequenceProblem

                    s = BacktrackSolver(MagicSequenceProblem(op["n"]), log_level="ERROR")
                    obs = {"solutions": [sol(x) for x in s.find_all()], "stats": stats(s)}
            else:
                obs = {"error": f"unknown op {kind}"}
        except BaseException as e:  # noqa
            obs = {"error": f"{type(e).__name__}: {str(e)[:200]}"}
        print(json.dumps(obs), flush=True)
    os._exit(0)


if __name__ == "__main__":
    main()
