"""Simulated time of the engine = work done: backward jumps executed in NuCS code objects (sys.monitoring, Python
3.12).  A budget overrun raises StepBudgetExceeded inside the offending frame, so non-termination becomes an
ordinary replayable violation with a location instead of a wall-clock kill."""
from __future__ import annotations

import sys
import types

TOOL = 4


class StepBudgetExceeded(Exception):
    pass


class StepClock:
    def __init__(self):
        self.count = 0
        self.budget = None  # absolute count at which to raise
        self.where = None
        self.installed = False

    def install(self):
        if self.installed:
            return
        mon = sys.monitoring
        mon.use_tool_id(TOOL, "verif-steps")
        mon.register_callback(TOOL, mon.events.JUMP, self._cb)
        n = 0
        seen = set()
        for name, mod in list(sys.modules.items()):
            if mod is None or not (name == "nucs" or name.startswith("nucs.")):
                continue
            for v in list(vars(mod).values()):
                for code in _codes_of(v):
                    if id(code) not in seen:
                        seen.add(id(code))
                        mon.set_local_events(TOOL, code, mon.events.JUMP)
                        n += 1
        self.installed = True
        self.registered = n

    def _cb(self, code, src, dst):
        if dst < src:
            self.count += 1
            if self.budget is not None and self.count > self.budget:
                self.budget = None  # raise once
                self.where = f"{code.co_filename.split('/nucs/')[-1]}:{code.co_name}"
                raise StepBudgetExceeded(self.where)

    def charge(self, n, where="monitor"):
        """Interposed events also cost simulated time (keeps a livelock of cheap passes from running for minutes)."""
        self.count += n
        if self.budget is not None and self.count > self.budget:
            self.budget = None
            self.where = where
            raise StepBudgetExceeded(where)

    def set_budget(self, steps):
        self.budget = None if steps is None else self.count + steps
        self.where = None

    def clear_budget(self):
        self.budget = None


def _walk(code):
    yield code
    for c in code.co_consts:
        if isinstance(c, types.CodeType):
            yield from _walk(c)


def _codes_of(v):
    if isinstance(v, types.FunctionType):
        if v.__module__ and v.__module__.startswith("nucs"):
            yield from _walk(v.__code__)
    elif isinstance(v, type):
        if v.__module__ and v.__module__.startswith("nucs"):
            for a in vars(v).values():
                if isinstance(a, types.FunctionType):
                    yield from _walk(a.__code__)
                elif isinstance(a, (staticmethod, classmethod)):
                    yield from _walk(a.__func__.__code__)


CLOCK = StepClock()
