"""Compiled, bounds-checked executor (E7, C16): a persistent interpreter that runs the JIT-compiled engine of the tree
under test with NUMBA_BOUNDSCHECK=1.  Requests are JSON lines on stdin ({"id", "model", "cfg", "mode", "limit"}), answers
JSON lines on stdout.  An index error raised inside a function that the engine reaches through a raw address cannot
propagate (numba reports it as "Exception ignored" and the caller goes on with garbage): sys.unraisablehook turns every
such report into a line {"unraisable": ...} written at once, before anything else can go wrong.

Usage: python bcworker.py <repo> <verif root>"""
import json
import os
import sys
import traceback


def main():
    repo, root = sys.argv[1], sys.argv[2]
    sys.path.insert(0, root)
    sys.path.insert(0, repo)
    import logging

    logging.disable(logging.CRITICAL)
    out_stream = os.fdopen(os.dup(1), "w")  # protocol stream; stray prints of the code under test go to stderr
    os.dup2(2, 1)

    def send(obj):
        out_stream.write(json.dumps(obj) + "\n")
        out_stream.flush()

    def hook(u):
        where = "?"
        tb = u.exc_traceback
        frames = traceback.extract_tb(tb) if tb is not None else []
        for fr in reversed(frames):
            if "/nucs/" in fr.filename:
                where = f"{fr.filename.split('/nucs/')[-1]}:{fr.lineno} in {fr.name}"
                break
        send({"unraisable": f"{type(u.exc_value).__name__ if u.exc_value is not None else u.exc_type}: {u.exc_value}", "where": where,
              "object": str(u.object)[:80]})

    sys.unraisablehook = hook
    from sim import nucsio

    send({"ready": True, "boundscheck": os.environ.get("NUMBA_BOUNDSCHECK"), "jit_disabled": os.environ.get("NUMBA_DISABLE_JIT")})
    for line in sys.stdin:
        line = line.strip()
        if not line:
            continue
        req = json.loads(line)
        ans = {"id": req["id"]}
        try:
            problem = nucsio.build_problem(req["model"])
            solver = nucsio.build_solver(problem, req["cfg"])
            mode = req["mode"]
            limit = req.get("limit", 2000)
            n = 0
            keep = [] if req.get("want_solutions") else None
            if mode[0] in ("find_all", "partial"):
                cap = limit if mode[0] == "find_all" else mode[1]
                for s in solver.solve():
                    n += 1
                    if keep is not None:
                        keep.append([int(x) for x in s])
                    if n >= cap:
                        break
                ans["n"] = n
                ans["capped"] = mode[0] == "find_all" and n >= cap
            else:
                r = solver.minimize(mode[1]) if mode[0] == "minimize" else solver.maximize(mode[1])
                ans["n"] = 0 if r is None else 1
                ans["value"] = None if r is None else int(r[mode[1]])
                if keep is not None and r is not None:
                    keep.append([int(x) for x in r])
            if keep is not None:
                ans["solutions"] = keep
                ans["stats"] = {k: int(v) for k, v in solver.get_statistics().items()}
            ans["outcome"] = "ok"
        except BaseException as e:  # noqa
            where = "?"
            for fr in reversed(traceback.extract_tb(e.__traceback__)):
                if "/nucs/" in fr.filename:
                    where = f"{fr.filename.split('/nucs/')[-1]}:{fr.lineno} in {fr.name}"
                    break
            ans.update(outcome="error", error=f"{type(e).__name__}: {str(e)[:200]}", etype=type(e).__name__, where=where)
        send(ans)
    os._exit(0)


if __name__ == "__main__":
    main()
