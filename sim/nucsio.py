"""Glue between the plain-dict models of the simulator and the real NuCS API."""
from __future__ import annotations

import copy
from typing import List, Optional

ALG_INDEX = {}


def _load():
    if ALG_INDEX:
        return
    import nucs.propagators.propagators as P

    for i, f in enumerate(P.COMPUTE_DOMAINS_FCTS):
        nm = f.__name__.replace("compute_domains_", "")
        ALG_INDEX.setdefault(nm, i)
    # prefer the documented constants
    for name in dir(P):
        if name.startswith("ALG_"):
            ALG_INDEX[name[4:].lower()] = getattr(P, name)


def alg_name(i: int) -> str:
    _load()
    import nucs.propagators.propagators as P

    return P.COMPUTE_DOMAINS_FCTS[i].__name__.replace("compute_domains_", "")


def build_problem(model: dict):
    _load()
    from nucs.problems.problem import Problem

    p = Problem(
        [(lo, hi) for lo, hi in model["shr"]],
        list(model["idx"]),
        list(model["off"]),
    )
    for vs, alg, params in model["props"]:
        p.add_propagator((list(vs), ALG_INDEX[alg], list(params)))
    return p


def build_solver(problem, cfg: dict, stack_max_height: int = 128, decision_domains: Optional[List[int]] = None):
    from nucs.solvers.backtrack_solver import BacktrackSolver

    kw = {}
    if decision_domains is not None:
        kw["decision_domains"] = decision_domains
    return BacktrackSolver(
        problem,
        consistency_alg_idx=cfg["cons"],
        var_heuristic_idx=cfg["var_h"],
        var_heuristic_params=copy.deepcopy(cfg["var_params"]),
        dom_heuristic_idx=cfg["dom_h"],
        dom_heuristic_params=copy.deepcopy(cfg["dom_params"]),
        stack_max_height=stack_max_height,
        log_level="ERROR",
        **kw,
    )


def engine_model(model: dict, problem) -> dict:
    """The model with constraints in ENGINE order (after Problem.init sorted them)."""
    m = dict(model)
    m["props"] = [[list(vs), alg_name(alg), [int(x) for x in params]] for vs, alg, params in problem.propagators]
    return m
