"""Glue between the plain-dict models of the simulator and the real NuCS API."""
from __future__ import annotations

import copy

import numpy as np
from typing import List, Optional

ALG_INDEX = {}


def _load():
    if ALG_INDEX:
        return
    import nucs.propagators.propagators as P

    for i, f in enumerate(P.COMPUTE_DOMAINS_FCTS):
        nm = f.__name__.replace("compute_domains_", "")
        ALG_INDEX.setdefault(nm, i)
    # prefer the documented constants
    for name in dir(P):
        if name.startswith("ALG_"):
            ALG_INDEX[name[4:].lower()] = getattr(P, name)


def register_custom():
    """A user-registered CHECKING constraint through the public register_propagator: x_0 != x_1, woken only when a
    variable is instantiated (EVENT_MASK_GROUND), prunes nothing.  The shipped sub-cycle constraint is the only other
    listener of that event; with this one, a lost or late instantiation event is observable on every kind of model."""
    import nucs.propagators.propagators as P

    if any(f.__name__ == "compute_domains_ground_neq" for f in P.COMPUTE_DOMAINS_FCTS):
        return
    from nucs.constants import EVENT_MASK_GROUND, MAX, MIN, PROP_CONSISTENCY, PROP_ENTAILMENT, PROP_INCONSISTENCY
    from numba import njit

    def get_triggers_ground_neq(n, parameters):
        return np.full(n, dtype=np.uint8, fill_value=EVENT_MASK_GROUND)

    def get_complexity_ground_neq(n, parameters):
        return 1.0

    @njit(cache=False)
    def compute_domains_ground_neq(domains, parameters):
        if domains[0, MIN] == domains[0, MAX] and domains[1, MIN] == domains[1, MAX]:
            if domains[0, MIN] == domains[1, MIN]:
                return PROP_INCONSISTENCY
            return PROP_ENTAILMENT
        return PROP_CONSISTENCY

    P.register_propagator(get_triggers_ground_neq, get_complexity_ground_neq, compute_domains_ground_neq)
    ALG_INDEX.clear()


def alg_name(i: int) -> str:
    _load()
    import nucs.propagators.propagators as P

    return P.COMPUTE_DOMAINS_FCTS[i].__name__.replace("compute_domains_", "")


def build_problem(model: dict):
    _load()
    from nucs.problems.problem import Problem

    n = len(model["shr"])
    inc = model.get("_incremental")
    if inc is not None and list(model["idx"]) == list(range(n)) and not any(model["off"]):
        # the same model built step by step through add_variable / add_variables / add_propagators (C13)
        k = max(1, min(inc, n))
        p = Problem([(lo, hi) for lo, hi in model["shr"][:k]])
        rest = [(lo, hi) for lo, hi in model["shr"][k:]]
        if len(rest) == 1:
            p.add_variable(rest[0])
        elif rest:
            p.add_variables(rest)
        p.add_propagators([(list(vs), ALG_INDEX[alg], list(params)) for vs, alg, params in model["props"]])
        return p
    va = model.get("_views_api")
    if va is not None:
        # constructor for the shared domains and the first n0 variables, the API for views for the others
        n0 = va["n0"]
        p = Problem([(lo, hi) for lo, hi in model["shr"][:n0]], list(model["idx"][:n0]), list(model["off"][:n0]))
        j = n0
        for g in va["groups"]:
            ph = [model["shr"][i][0] for i in range(j, j + g)]
            if g == 1:
                at = p.add_variable(ph[0], model["idx"][j], model["off"][j])
            else:
                at = p.add_variables(ph, list(model["idx"][j : j + g]), list(model["off"][j : j + g]))
            if at != j:
                raise AssertionError(f"add_variable(s) returned index {at}, expected {j}")
            j += g
        for vs, alg, params in model["props"]:
            p.add_propagator((list(vs), ALG_INDEX[alg], list(params)))
        return p
    p = Problem(
        [(lo, hi) for lo, hi in model["shr"]],
        list(model["idx"]),
        list(model["off"]),
    )
    for vs, alg, params in model["props"]:
        p.add_propagator((list(vs), ALG_INDEX[alg], list(params)))
    return p


CALLER_BUFFERS: dict = {}  # (role, shape) -> the calling application's own int64 array, reused for every configuration


def _caller_array(params, role):
    a = np.array(params, dtype=np.int64)
    buf = CALLER_BUFFERS.setdefault((role, a.shape), np.empty(a.shape, dtype=np.int64))
    buf[...] = a
    return buf


def build_solver(problem, cfg: dict, stack_max_height: int = 128, decision_domains: Optional[List[int]] = None):
    from nucs.solvers.backtrack_solver import BacktrackSolver

    solver = _build_solver(BacktrackSolver, problem, cfg, stack_max_height, decision_domains)
    return solver


def _build_solver(BacktrackSolver, problem, cfg, stack_max_height, decision_domains):
    kw = {}
    if decision_domains is None and cfg.get("decision") is not None:
        decision_domains = list(cfg["decision"])
    if decision_domains is not None:
        kw["decision_domains"] = decision_domains
    # defaults are left to the constructor (its mutable default arguments are part of what is under test)
    from sim.gen import expand_table

    if cfg["var_params"] != [[]]:
        kw["var_heuristic_params"] = copy.deepcopy(expand_table(cfg["var_params"]))
    if cfg["dom_params"] != [[]]:
        kw["dom_heuristic_params"] = copy.deepcopy(expand_table(cfg["dom_params"]))
    if cfg["cons"] != 0:
        kw["consistency_alg_idx"] = cfg["cons"]
    if cfg["var_h"] != 0:
        kw["var_heuristic_idx"] = cfg["var_h"]
    if cfg["dom_h"] != 0:
        kw["dom_heuristic_idx"] = cfg["dom_h"]
    if stack_max_height != 128:
        kw["stack_max_height"] = stack_max_height
    bufs = []
    if cfg.get("caller_buffer"):
        # the application hands its cost tables over in an int64 array of its own, and fills that array with the next
        # configuration as soon as the solver is built (legal: the solver is configured by the VALUES it was given)
        for k in ("var_heuristic_params", "dom_heuristic_params"):
            if k in kw:
                kw[k] = _caller_array(kw[k], k)
                bufs.append(kw[k])
    solver = BacktrackSolver(problem, log_level="ERROR", **kw)
    for b in bufs:
        if b.ndim == 2 and b.size:
            b[...] = b[:, ::-1] + 1
    return solver


def engine_model(model: dict, problem) -> dict:
    """The model with constraints in ENGINE order (after Problem.init sorted them)."""
    m = dict(model)
    m["props"] = [[list(vs), alg_name(alg), [int(x) for x in params]] for vs, alg, params in problem.propagators]
    return m
