"""Sacrificial interpreter for capacity points (E5) and mode-paired histories (E4).

Usage: python capworker.py <repo> <json spec>.  Prints JSON lines: first {"phase":"ref",...} for the ample-capacity
reference, then {"phase":"point",...}.  A compiled-mode abort kills only this process."""
import json
import os
import sys


def build(spec):
    from nucs.problems.problem import Problem
    import nucs.propagators.propagators as P

    kind = spec["kind"]
    if kind == "bools":  # n free booleans: depth n with one level per choice
        n = spec["n"]
        return Problem([(0, 1)] * n)
    if kind == "wide":  # n free variables over [0, w-1]: mid-value / min-cost push two levels per choice
        return Problem([(0, spec["w"] - 1)] * spec["n"])
    if kind == "chain":  # x0 < x1 < ... : a constrained model with a known solution count
        n, w = spec["n"], spec["w"]
        p = Problem([(0, w - 1)] * n)
        for i in range(n - 1):
            p.add_propagator(([i, i + 1], P.ALG_AFFINE_LEQ, [1, -1, -1]))
        return p
    if kind == "gated":  # sum(x1..xn) <= n*x0 and s = sum(x1..xn): the x0=0 part needs no choice point, x0=1 needs n
        n = spec["n"]
        p = Problem([(0, 1)] * (n + 1) + [(0, n)])
        p.add_propagator((list(range(1, n + 1)) + [0], P.ALG_AFFINE_LEQ, [1] * n + [-n, 0]))
        p.add_propagator((list(range(1, n + 2)), P.ALG_AFFINE_EQ, [1] * n + [-1, 0]))
        return p
    if kind == "many_params":  # total number of parameters around 2^16
        k, per = spec["k"], spec["per"]
        p = Problem([(0, 1), (0, 1)])
        tuples = [0, 0, 0, 1, 1, 0, 1, 1]
        params = (tuples * ((per // 8) + 1))[: per - per % 2]
        for _ in range(k):
            p.add_propagator(([0, 1], P.ALG_RELATION, list(params)))
        return p
    if kind == "many_positions":  # total number of constraint positions around 2^16
        k, per = spec["k"], spec["per"]
        p = Problem([(0, 1)] * 2)
        for _ in range(k):
            p.add_propagator(([0, 1] * (per // 2), P.ALG_DUMMY, []))
        return p
    if kind == "many_domains":  # number of shared domains around 2^16
        return Problem([(0, 0)] * spec["n"] + [(0, 1)])
    if kind == "many_domains_decided":
        # two decision variables, then constants (data of the instance stated as instantiated variables) up to around
        # 2^16 shared domains; the LAST constant (value 3) bounds x0 + x1.  The caller names its decision domains.
        n = spec["n"]
        p = Problem([(0, 3), (0, 3)] + [(0, 0)] * (n - 3) + [(3, 3)])
        p.add_propagator(([0, 1, n - 1], P.ALG_AFFINE_LEQ, [1, 1, -1, 0]))
        return p
    if kind == "many_types":  # registered constraint types around 2^8
        from nucs.propagators.dummy_propagator import compute_domains_dummy, get_complexity_dummy, get_triggers_dummy

        idx = 0
        while len(P.COMPUTE_DOMAINS_FCTS) < spec["n"]:
            idx = P.register_propagator(get_triggers_dummy, get_complexity_dummy, compute_domains_dummy)
        p = Problem([(0, 1), (0, 1)])
        p.add_propagator(([0, 1], len(P.COMPUTE_DOMAINS_FCTS) - 1, []))
        p.add_propagator(([0, 1], P.ALG_AFFINE_LEQ, [1, -1, 0]))
        return p
    raise ValueError(kind)


def solve(spec, height):
    from nucs.solvers.backtrack_solver import BacktrackSolver

    p = build(spec)
    kw = {}
    if spec.get("dom_h", 0) == 4:
        w = spec.get("w", 2)
        n = len(p.shr_domains_lst)
        kw["dom_heuristic_params"] = [[1 if v == 1 else 2 for v in range(w)] for d in range(n)]  # an interior value is cheapest
    if spec.get("workers"):
        return solve_mp(spec, p, height, kw)
    if spec.get("decision") is not None:
        kw["decision_domains"] = list(spec["decision"])
    s = BacktrackSolver(p, consistency_alg_idx=spec.get("cons", 0), var_heuristic_idx=spec.get("var_h", 0),
                        dom_heuristic_idx=spec.get("dom_h", 0), stack_max_height=height, log_level="ERROR", **kw)
    out = []
    limit = spec.get("limit", 1)
    if spec.get("op") in ("min", "max"):
        r = s.minimize(spec["objective"]) if spec["op"] == "min" else s.maximize(spec["objective"])
        out = [[int(x) for x in r]] if r is not None else []
        st = s.get_statistics()
        return {"solutions": out if len(out[0] if out else []) <= 40 else [[sum(o), len(o)] for o in out], "n": len(out),
                "depth": st["SOLVER_CHOICE_DEPTH"], "choices": st["SOLVER_CHOICE_NB"]}
    for sol in s.solve():
        out.append([int(x) for x in sol])
        if len(out) >= limit:
            break
    st = s.get_statistics()
    return {"solutions": out if len(out[0] if out else []) <= 40 else [[sum(o), len(o)] for o in out], "n": len(out),
            "depth": st["SOLVER_CHOICE_DEPTH"], "choices": st["SOLVER_CHOICE_NB"]}


def solve_mp(spec, p, height, kw):
    """The same capacity point through the multiprocessing solver (in-process fakes, fixed delivery plan): a worker
    whose stack overflows dies with an exception; the parent must raise, not return a partial answer."""
    from nucs.solvers.backtrack_solver import BacktrackSolver
    from nucs.solvers.multiprocessing_solver import MultiprocessingSolver
    from sim import mpsim
    from sim.kernel import Choices

    parts = p.split(spec["workers"], spec.get("split_var", 0))
    solvers = [BacktrackSolver(sp, consistency_alg_idx=spec.get("cons", 0), dom_heuristic_idx=spec.get("dom_h", 0),
                               stack_max_height=height, log_level="ERROR", **kw) for sp in parts]

    def run_worker(stream, clone, method, args, kwargs):
        try:
            getattr(clone, method)(*args, **kwargs)
        except Exception as e:  # the worker process dies with this exception (exit code 1, no completion marker)
            stream.error = e

    world = mpsim.World(Choices(seed=spec.get("seed", 0)), {"template": "jitter", "faults": {}, "start": {}, "opcost": 1}, run_worker, {})
    with mpsim.detached():
        parent = MultiprocessingSolver(solvers, log_level="ERROR")
    mpsim.adopt(world, parent)
    with mpsim.patched(world):
        if spec.get("op") == "max":
            r = parent.maximize(spec["objective"])
            out = [[int(x) for x in r]] if r is not None else []
            out = [[o[spec["objective"]]] for o in out]
        else:
            out = sorted([int(x) for x in s] for s in parent.solve())
    return {"solutions": out if len(out[0] if out else []) <= 40 else [[sum(o), len(o)] for o in out], "n": len(out),
            "depth": 0, "choices": 0}


def main():
    repo, spec = sys.argv[1], json.loads(sys.argv[2])
    sys.path.insert(0, repo)
    sys.path.insert(0, os.path.dirname(os.path.dirname(os.path.abspath(__file__))))
    import logging

    logging.disable(logging.CRITICAL)
    for phase, height in (("ref", spec.get("ref_height", 250)), ("point", spec["height"])):
        if phase == "ref" and spec.get("no_ref"):
            continue
        try:
            r = solve(spec, height)
            r.update(phase=phase, outcome="ok")
        except BaseException as e:  # noqa
            r = {"phase": phase, "outcome": "error", "error": f"{type(e).__name__}: {str(e)[:200]}"}
        print(json.dumps(r), flush=True)
    os._exit(0)


if __name__ == "__main__":
    main()
