"""Reference semantics, written from docs/source/reference.rst (never from the propagators).

A model is a plain dict:
  {"shr": [[lo,hi],...], "idx": [...], "off": [...], "props": [[vars, algname, params], ...]}
Variables are (shared domain index, offset); constraints name variables.
"""
from __future__ import annotations

import itertools
from typing import Dict, Iterable, List, Optional, Sequence, Tuple


# ---------------------------------------------------------------------------------------------- ground predicates
def _circuit(x: Sequence[int]) -> bool:
    n = len(x)
    if any(v < 0 or v >= n for v in x):
        return False
    seen = 0
    cur = 0
    for _ in range(n):
        cur = x[cur]
        seen += 1
        if cur == 0:
            break
    return cur == 0 and seen == n


def _no_sub_cycle(x: Sequence[int]) -> bool:
    """No cycle of length < n in the successor graph (decisive on permutations)."""
    n = len(x)
    if any(v < 0 or v >= n for v in x):
        return False
    for s in range(n):
        cur = s
        for k in range(1, n):
            cur = x[cur]
            if cur == s:
                return False  # cycle of length k < n through s
    return True


def pred_and(x, p):
    return (1 if all(v == 1 for v in x[:-1]) else 0) == x[-1]


def pred_affine_eq(x, p):
    return sum(a * v for a, v in zip(p[:-1], x)) == p[-1]


def pred_affine_geq(x, p):
    return sum(a * v for a, v in zip(p[:-1], x)) >= p[-1]


def pred_affine_leq(x, p):
    return sum(a * v for a, v in zip(p[:-1], x)) <= p[-1]


def pred_alldifferent(x, p):
    return len(set(x)) == len(x)


def pred_count_eq(x, p):
    return sum(1 for v in x[:-1] if v == p[0]) == x[-1]


def pred_dummy(x, p):
    return True


def pred_element_iv(x, p):
    i, v = x
    return 0 <= i < len(p) and p[i] == v


def pred_element_lic(x, p):
    l, i = x[:-1], x[-1]
    return 0 <= i < len(l) and l[i] == p[0]


def pred_element_liv(x, p):
    l, i, v = x[:-2], x[-2], x[-1]
    return 0 <= i < len(l) and l[i] == v


def pred_exactly_eq(x, p):
    return sum(1 for v in x if v == p[0]) == p[1]


def pred_exactly_true(x, p):
    return sum(1 for v in x if v == 1) == p[0]


def pred_gcc(x, p):
    m = (len(p) - 1) // 2
    v0 = p[0]
    for j in range(m):
        c = sum(1 for v in x if v == v0 + j)
        if not (p[1 + j] <= c <= p[1 + m + j]):
            return False
    return True


def pred_lexicographic_leq(x, p):
    n = len(x) // 2
    return tuple(x[:n]) <= tuple(x[n:])


def pred_max_eq(x, p):
    return max(x[:-1]) == x[-1]


def pred_max_leq(x, p):
    return max(x[:-1]) <= x[-1]


def pred_min_eq(x, p):
    return min(x[:-1]) == x[-1]


def pred_min_geq(x, p):
    return min(x[:-1]) >= x[-1]


def pred_relation(x, p):
    n = len(x)
    t = tuple(x)
    return any(tuple(p[k : k + n]) == t for k in range(0, len(p), n))


def pred_no_sub_cycle(x, p):
    return _no_sub_cycle(x)


def pred_scc(x, p):
    return _circuit(x)


def pred_ground_neq(x, p):
    return x[0] != x[1]


PREDICATES = {
    "ground_neq": pred_ground_neq,
    "and": pred_and,
    "affine_eq": pred_affine_eq,
    "affine_geq": pred_affine_geq,
    "affine_leq": pred_affine_leq,
    "alldifferent": pred_alldifferent,
    "count_eq": pred_count_eq,
    "dummy": pred_dummy,
    "element_iv": pred_element_iv,
    "element_lic": pred_element_lic,
    "element_liv": pred_element_liv,
    "exactly_eq": pred_exactly_eq,
    "exactly_true": pred_exactly_true,
    "gcc": pred_gcc,
    "lexicographic_leq": pred_lexicographic_leq,
    "max_eq": pred_max_eq,
    "max_leq": pred_max_leq,
    "min_eq": pred_min_eq,
    "min_geq": pred_min_geq,
    "relation": pred_relation,
    "no_sub_cycle": pred_no_sub_cycle,
    "scc": pred_scc,
}

# constraint types the documentation calls bound-consistent (C08 clause 3 / C14 list) -- exact hull operators
BC_EXACT = {
    "and", "affine_geq", "affine_leq", "alldifferent", "count_eq", "element_iv", "element_lic", "element_liv",
    "exactly_eq", "exactly_true", "gcc", "lexicographic_leq", "max_eq", "max_leq", "min_eq", "min_geq", "relation",
    "dummy",
}
CAN_ENTAIL = {
    "affine_geq", "affine_leq", "count_eq", "element_iv", "element_lic", "element_liv", "exactly_eq",
    "exactly_true", "lexicographic_leq", "max_leq", "min_geq", "relation",
}


# ---------------------------------------------------------------------------------------------------- the model
def var_values(model: dict, shr_vals: Sequence[int]) -> Tuple[int, ...]:
    return tuple(shr_vals[i] + o for i, o in zip(model["idx"], model["off"]))


def holds(model: dict, varvals: Sequence[int], which: Optional[Iterable[int]] = None) -> bool:
    props = model["props"]
    for k in which if which is not None else range(len(props)):
        vs, alg, params = props[k]
        if not PREDICATES[alg]([varvals[v] for v in vs], params):
            return False
    return True


def violated(model: dict, varvals: Sequence[int]) -> List[int]:
    return [
        k for k, (vs, alg, params) in enumerate(model["props"]) if not PREDICATES[alg]([varvals[v] for v in vs], params)
    ]


def space_size(box: Sequence[Sequence[int]]) -> int:
    s = 1
    for lo, hi in box:
        s *= max(0, hi - lo + 1)
    return s


def iter_box(box: Sequence[Sequence[int]]):
    return itertools.product(*[range(lo, hi + 1) for lo, hi in box])


WIDE = 1 << 20  # a shared domain with more values is never enumerated


def iter_box_model(model: dict, box: Sequence[Sequence[int]]):
    """Like iter_box, but a WIDE shared domain is derived instead of enumerated: it must be the value of an element_iv
    constraint (v = l[i], the only way a finite model gives meaning to a domain of 2^31 values); the other domains are
    enumerated and the wide one takes the one value the table allows (no tuple if the index is outside the table or
    the value outside the domain).  Independent of NuCS: it is the definition of the constraint read as a function."""
    wide = [d for d, (lo, hi) in enumerate(box) if hi - lo + 1 > WIDE]
    if not wide:
        yield from iter_box(box)
        return
    src = {}
    for vs, alg, prm in model["props"]:
        if alg == "element_iv" and model["idx"][vs[1]] in wide and model["idx"][vs[1]] not in src and model["idx"][vs[0]] not in wide:
            src[model["idx"][vs[1]]] = (vs[0], vs[1], prm)
    if set(src) != set(wide):
        raise ValueError("a wide shared domain that no element_iv constraint defines: the reference cannot enumerate it")
    narrow = [range(lo, hi + 1) if d not in src else (None,) for d, (lo, hi) in enumerate(box)]
    for t in itertools.product(*narrow):
        t = list(t)
        ok = True
        for d, (iv, vv, prm) in src.items():
            i_val = t[model["idx"][iv]] + model["off"][iv]
            if not 0 <= i_val < len(prm):
                ok = False
                break
            sv = prm[i_val] - model["off"][vv]
            if not box[d][0] <= sv <= box[d][1]:
                ok = False
                break
            t[d] = sv
        if ok:
            yield tuple(t)


def solutions(model: dict, box: Optional[Sequence[Sequence[int]]] = None) -> List[Tuple[int, ...]]:
    """All solutions as tuples of VARIABLE values, in lexicographic order of the shared-domain tuple."""
    box = box if box is not None else model["shr"]
    out = []
    for shr_vals in iter_box_model(model, box):
        vv = var_values(model, shr_vals)
        if holds(model, vv):
            out.append(vv)
    return out


def shr_solutions(model: dict, box: Sequence[Sequence[int]]) -> List[Tuple[int, ...]]:
    return [s for s in iter_box_model(model, box) if holds(model, var_values(model, s))]


def hull(points: List[Tuple[int, ...]]) -> Optional[List[List[int]]]:
    if not points:
        return None
    n = len(points[0])
    return [[min(p[i] for p in points), max(p[i] for p in points)] for i in range(n)]


def check_solution(model: dict, sol: Sequence[int]) -> Optional[str]:
    """C01 oracle.  None if fine, else a message."""
    nvar = len(model["idx"])
    if len(sol) != nvar:
        return f"solution has {len(sol)} values for {nvar} variables"
    for v in range(nvar):
        lo, hi = model["shr"][model["idx"][v]]
        o = model["off"][v]
        if not (lo + o <= sol[v] <= hi + o):
            return f"variable {v} = {sol[v]} outside declared domain [{lo + o},{hi + o}]"
    by_dom: Dict[int, int] = {}
    for v in range(nvar):
        d = model["idx"][v]
        base = sol[v] - model["off"][v]
        if d in by_dom and by_dom[d] != base:
            return f"variables sharing domain {d} do not differ by their offsets (variable {v})"
        by_dom.setdefault(d, base)
    bad = violated(model, sol)
    if bad:
        k = bad[0]
        vs, alg, params = model["props"][k]
        return f"constraint #{k} {alg}{params} violated on {[sol[v] for v in vs]}"
    return None


# --------------------------------------------------------------------------------------- per-constraint semantics
def prop_positions(model: dict, k: int) -> Tuple[List[int], List[int]]:
    vs = model["props"][k][0]
    return [model["idx"][v] for v in vs], [model["off"][v] for v in vs]


def prop_all_satisfied(model: dict, k: int, box: Sequence[Sequence[int]], cap: int = 20000) -> Optional[bool]:
    """Does every tuple of the (shared-domain) box satisfy constraint k?  None if the projection is too big."""
    vs, alg, params = model["props"][k]
    doms = sorted(set(model["idx"][v] for v in vs))
    sub = [box[d] for d in doms]
    if space_size(sub) > cap:
        return None
    pos = {d: i for i, d in enumerate(doms)}
    pred = PREDICATES[alg]
    for t in iter_box(sub):
        x = [t[pos[model["idx"][v]]] + model["off"][v] for v in vs]
        if not pred(x, params):
            return False
    return True


def prop_view_hull(alg: str, params: Sequence[int], views: Sequence[Sequence[int]], cap: int = 20000):
    """Exact bound-consistency operator on independent views: hull of the satisfying tuples, None if none.
    Returns 'big' when the box is too large to enumerate."""
    if space_size(views) > cap:
        return "big"
    pred = PREDICATES[alg]
    lo = None
    hi = None
    for t in iter_box(views):
        if pred(t, params):
            if lo is None:
                lo = list(t)
                hi = list(t)
            else:
                for i, v in enumerate(t):
                    if v < lo[i]:
                        lo[i] = v
                    elif v > hi[i]:
                        hi[i] = v
    if lo is None:
        return None
    return [[a, b] for a, b in zip(lo, hi)]


def prop_shared_hull(model: dict, k: int, box: Sequence[Sequence[int]], cap: int = 20000):
    """Exact hull of constraint k over the SHARED domains it touches (aliasing respected).  Returns dict
    dom->[lo,hi], None if unsatisfiable, 'big' if too large."""
    vs, alg, params = model["props"][k]
    doms = sorted(set(model["idx"][v] for v in vs))
    sub = [box[d] for d in doms]
    if space_size(sub) > cap:
        return "big"
    pos = {d: i for i, d in enumerate(doms)}
    pred = PREDICATES[alg]
    lo = hi = None
    for t in iter_box(sub):
        x = [t[pos[model["idx"][v]]] + model["off"][v] for v in vs]
        if pred(x, params):
            if lo is None:
                lo, hi = list(t), list(t)
            else:
                for i, v in enumerate(t):
                    if v < lo[i]:
                        lo[i] = v
                    elif v > hi[i]:
                        hi[i] = v
    if lo is None:
        return None
    return {d: [lo[pos[d]], hi[pos[d]]] for d in doms}


def reference_gfp(model: dict, box: Sequence[Sequence[int]], enabled: Optional[Sequence[bool]] = None, cap=20000):
    """Greatest common fixpoint of the exact shared-domain hull operators of the enabled constraints.
    Returns (box or None if some operator proves emptiness, or 'big')."""
    cur = [list(b) for b in box]
    if any(lo > hi for lo, hi in cur):
        return None
    changed = True
    n = len(model["props"])
    while changed:
        changed = False
        for k in range(n):
            if enabled is not None and not enabled[k]:
                continue
            h = prop_shared_hull(model, k, cur, cap)
            if h == "big":
                return "big"
            if h is None:
                return None
            for d, (lo, hi) in h.items():
                if lo > cur[d][0]:
                    cur[d][0] = lo
                    changed = True
                if hi < cur[d][1]:
                    cur[d][1] = hi
                    changed = True
    return cur
