"""Per-property oracles attached to the interposed engine (one EngineListener per solver under test)."""
from __future__ import annotations

import hashlib
from collections import Counter
from typing import List, Optional

import numpy as np

from sim import refmodel as R
from sim import seams
from sim.steps import CLOCK

PROP_INCONSISTENCY, PROP_CONSISTENCY, PROP_ENTAILMENT = 0, 1, 2
PROBLEM_INCONSISTENT, PROBLEM_UNBOUND, PROBLEM_BOUND = 0, 1, 2
EV_MIN, EV_MAX, EV_GROUND = 1, 2, 4

# positions in the SIGNATURE_CONSISTENCY_ALG argument tuple
A_STATS, A_ALGS, A_VARB, A_PARB, A_DIDX, A_DOFF, A_PIDX, A_POFF, A_PPAR, A_TRIG, A_STACK, A_NE, A_DUS, A_TOP, A_QUEUE, \
    A_ADDR, A_DEC = range(17)


params_gfp_default = False


class EngineListener:
    def __init__(self, emodel: dict, solver, ch=None, policy: str = "native", checks=None, cap: int = 20000):
        self.m = emodel  # engine-order model
        self.solver = solver
        self.ch = ch
        self.policy = policy
        self.checks = checks if checks is not None else {"C04", "C07", "C08", "C09", "C10", "C17"}
        self.cap = cap
        self.violations: List[dict] = []
        self.seen = set()
        self.probes = Counter()
        self.h = hashlib.sha256()
        self.P = len(emodel["props"])
        # counters (event counts for C17)
        self.c = Counter()
        self.last_pop = -1
        self.in_shaving = 0
        self.in_shave_bound = 0
        self.pass_execs = 0
        self.ref_stack = {}  # level -> (box, flags) saved at push time
        self.pending_alt = None  # message, while an alternative restored by backtrack() awaits its propagation pass
        self.pending_queue = None
        self.self_allowed = None
        self.orders = []  # popped sequence of the current pass
        self.order_hashes = set()
        self.max_ratio = 0.0
        self.exec_premise_ok = True  # every execution returned exactly the reference hull (C08 clause 3)
        self.all_exact_types = all(p[1] in R.BC_EXACT for p in emodel["props"])
        # a shared domain at two positions of one constraint: view-exact operators are not exact on shared domains
        self.aliased = any(
            len(set(emodel["idx"][v] for v in p[0])) != len(p[0]) for p in emodel["props"]
        )
        self.gfp_compare = params_gfp_default
        self.fix_states = set()
        self.solutions_seen = 0
        self.disabled_checked = 0

    # ------------------------------------------------------------------------------------------------ helpers
    def log(self, *items):
        self.h.update(repr(items).encode())

    def viol(self, prop: str, oracle: str, msg: str):
        key = (prop, oracle)
        if key in self.seen:
            return
        self.seen.add(key)
        self.violations.append({"property": prop, "oracle": oracle, "message": msg})

    def views(self, k: int, box) -> np.ndarray:
        vs = self.m["props"][k][0]
        out = np.empty((len(vs), 2), dtype=np.int32)
        for i, v in enumerate(vs):
            d = self.m["idx"][v]
            o = self.m["off"][v]
            # 32-bit views as the engine builds them (a bound that left the 32 bits - only a defective tree produces
            # one - wraps there too; the run is judged by the other oracles, the monitor must survive it)
            out[i, 0] = ((int(box[d][0]) + o + (1 << 31)) % (1 << 32)) - (1 << 31)
            out[i, 1] = ((int(box[d][1]) + o + (1 << 31)) % (1 << 32)) - (1 << 31)
        return out

    def shadow_exec(self, k: int, box):
        """Run the real (unwrapped) propagator of constraint k on copies of its views.  Returns
        (status, dict dom->(lo,hi)) where the dict is the intersection of the returned views per shared domain."""
        from nucs.propagators.propagators import COMPUTE_DOMAINS_FCTS  # noqa

        import nucs.propagators.propagators as P

        vs, alg, params = self.m["props"][k]
        views = self.views(k, box)
        f = seams.ORIG["compute"][P_index(alg)]
        status = f(views, np.array(params, dtype=np.int32))
        res = {}
        for i, v in enumerate(vs):
            d = self.m["idx"][v]
            o = self.m["off"][v]
            lo, hi = int(views[i, 0]) - o, int(views[i, 1]) - o
            if d in res:
                res[d] = (max(res[d][0], lo), min(res[d][1], hi))
            else:
                res[d] = (lo, hi)
        return status, res

    # ------------------------------------------------------------------------------------------ compute_domains
    def around_compute(self, i, f, domains, parameters):
        CLOCK.charge(10, "constraint execution")
        before = domains.copy()
        status = f(domains, parameters)
        after = domains
        k = self.last_pop
        self.c["exec"] += 1
        self.pass_execs += 1
        if status == PROP_ENTAILMENT:
            self.c["entail"] += 1
        elif status == PROP_INCONSISTENCY:
            self.c["incons"] += 1
        view_same = bool(np.array_equal(before, after))
        self.close_exec()
        top = int(self.solver.stacks_top[0])
        self.exec_seq = getattr(self, "exec_seq", 0) + 1
        if not hasattr(self, "last_exec"):
            self.last_exec = {}
        self.last_exec[k] = (self.exec_seq, before.tobytes())
        self.cur_exec = {
            "k": k,
            "status": int(status),
            "view_same": view_same,
            "top": top,
            "snap": self.solver.shr_domains_stack[top].copy(),
        }
        self.log("x", k, int(status), before.tobytes(), after.tobytes())
        alg = seams.ALG_NAMES.get(i, str(i))
        params = [int(x) for x in parameters]
        if "C07" in self.checks and status == PROP_ENTAILMENT:
            box = [[int(a), int(b)] for a, b in after]
            if any(a > b for a, b in box):
                pass  # an empty box has no tuple: vacuously fine (whoever produced the empty domain is at fault)
            elif R.space_size(box) <= self.cap:
                self.probes["entailed_answers_checked"] += 1
                pred = R.PREDICATES[alg]
                for t in R.iter_box(box):
                    if not pred(list(t), params):
                        self.viol(
                            "C07",
                            "entailed-box-has-violating-tuple",
                            f"{alg}{params} answered entailed on {before.tolist()} -> {box} but tuple {list(t)} violates",
                        )
                        break
        if "C08" in self.checks and self.exec_premise_ok and alg in R.BC_EXACT and alg != "dummy":
            inbox = [[int(a), int(b)] for a, b in before]
            hull = R.prop_view_hull(alg, params, inbox, self.cap) if all(a <= b for a, b in inbox) else "big"
            if hull == "big":
                self.exec_premise_ok = False
            elif hull is None:
                if status != PROP_INCONSISTENCY:
                    self.exec_premise_ok = False
            else:
                if status == PROP_INCONSISTENCY or [[int(a), int(b)] for a, b in after] != hull:
                    self.exec_premise_ok = False
        elif alg not in R.BC_EXACT:
            self.exec_premise_ok = False
        return status

    def close_exec(self):
        """Account the previous execution once its write-back is over (C17 readings of 'no domain change')."""
        e = getattr(self, "cur_exec", None)
        if e is None:
            return
        self.cur_exec = None
        failed = e["status"] == PROP_INCONSISTENCY
        shared_same = bool(np.array_equal(e["snap"], self.solver.shr_domains_stack[e["top"]]))
        if e["view_same"]:
            self.c["nc_view_incl"] += 1
            if not failed:
                self.c["nc_view_excl"] += 1
        if shared_same:
            self.c["nc_shared_incl"] += 1
            if not failed:
                self.c["nc_shared_excl"] += 1
        self.last_status = e["status"]

    # ---------------------------------------------------------------------------------------------------- pop
    def pop(self, triggered, prev, orig):
        self.close_exec()
        if self.policy == "native" or self.ch is None:
            idx = orig(triggered, prev)
        else:
            if self.self_allowed is None:
                t = np.zeros(max(2, len(triggered)), dtype=bool)
                t[1] = True
                self.self_allowed = orig(t, 1) == 1
            cands = [i for i in range(len(triggered)) if triggered[i] and (self.self_allowed or i != prev)]
            if not cands:
                idx = orig(triggered, prev)
            else:
                if self.policy == "reverse":
                    idx = cands[-1]
                elif self.policy == "starve":
                    # starve the lowest index as long as legal
                    idx = cands[-1] if len(cands) > 1 and self.ch.chance(3, 4, "pop.starve") else cands[0]
                else:
                    idx = cands[self.ch.choose(len(cands), "pop")]
                triggered[idx] = False
        self.last_pop = int(idx)
        self.orders.append(int(idx))
        return idx

    # ------------------------------------------------------------------------------------- propagation passes
    def around_bc(self, orig, args):
        stack, ne, top_arr, queue = args[A_STACK], args[A_NE], args[A_TOP], args[A_QUEUE]
        top = int(top_arr[0])
        entry = stack[top].copy()
        self.c["bc"] += 1
        CLOCK.charge(40, "solvers/bound_consistency_algorithm.py:bound_consistency_algorithm (pass)")
        self.pass_execs = 0
        self.orders = []
        S = int(sum(max(0, int(hi) - int(lo)) for lo, hi in entry))
        self.last_status = None
        self.exec_premise_ok = True
        flags_entry = ne[top].copy()
        if self.pending_alt is not None:
            lost = [int(k) for k in np.flatnonzero(self.pending_queue) if k < len(queue) and not queue[k]]
            if lost and "C09" in self.checks:
                self.viol("C09", "alternative-announcement-dropped",
                          f"the pass that follows a backtrack starts without constraints {lost} which the restored alternative had queued")
            self.pending_alt = None
        status = orig(*args)
        self.close_exec()
        if self.gfp_compare and "C08" in self.checks and self.all_exact_types and not self.aliased and self.P:
            self.compare_with_reference_gfp(entry, stack[top], ne[top], status)
        if status == PROBLEM_INCONSISTENT and self.last_status != PROP_INCONSISTENCY:
            self.c["wb_fail"] += 1  # inconsistency found outside a constraint execution (e.g. at write-back)
        n = self.pass_execs
        self.order_hashes.add(hash(tuple(self.orders)))
        self.log("bc", top, int(status), stack[int(top_arr[0])].tobytes())
        bound = 2 * (self.P + 1) * (S + 2)
        if "C04" in self.checks:
            self.max_ratio = max(self.max_ratio, n / bound)
            if n > bound:
                self.viol(
                    "C04",
                    "pass-execution-bound",
                    f"one propagation pass ran {n} constraint executions > bound {bound} (P={self.P}, S={S})",
                )
        if int(top_arr[0]) != top:
            self.viol("C10", "bc-moved-stack", f"bound consistency changed the stack height {top}->{int(top_arr[0])}")
        if status in (PROBLEM_UNBOUND, PROBLEM_BOUND):
            self.quiescent_checks(entry, stack[top], ne[top], status, "bc")
        return status

    def compare_with_reference_gfp(self, entry, box_arr, flags_arr, status):
        """C08 clause 3: when every execution of this pass returned exactly the reference hull of its input (the
        premise is OBSERVED, otherwise the pass is tallied as 'premise not met' and gives no verdict), the result must
        be the greatest common fixpoint of the exact operators, and the pass fails iff that fixpoint is empty."""
        if not self.exec_premise_ok:
            self.probes["gfp_some_execution_not_exact"] += 1  # attribution only: the comparison below still decides
        ebox = [[int(a), int(b)] for a, b in entry]
        if any(a > b for a, b in ebox):
            return
        ref = R.reference_gfp(self.m, ebox, None, self.cap)
        if ref == "big":
            self.probes["gfp_too_big"] += 1
            return
        self.probes["gfp_comparisons"] += 1
        box = [[int(a), int(b)] for a, b in box_arr]
        if status == PROBLEM_INCONSISTENT:
            if ref is not None:
                self.viol("C08", "fails-although-fixpoint-exists", f"pass on {ebox} failed but the exact operators have the non-empty greatest common fixpoint {ref}")
        elif ref is None:
            self.viol("C08", "consistent-although-no-fixpoint", f"pass on {ebox} returned {box} but the exact operators have no common fixpoint")
        elif box != ref:
            self.viol("C08", "not-the-greatest-fixpoint", f"pass on {ebox} returned {box}; the greatest common fixpoint of the exact operators is {ref} (wake order {self.orders[:12]})")

    def quiescent_checks(self, entry, box_arr, flags_arr, status, where):
        box = [[int(a), int(b)] for a, b in box_arr]
        flags = [bool(x) for x in flags_arr]
        entry_ok = all(int(a) <= int(b) for a, b in entry)  # an empty entry domain is the caller's fault
        if "C08" in self.checks and entry_ok:
            for d, ((lo, hi), (elo, ehi)) in enumerate(zip(box, entry)):
                if lo > hi:
                    self.viol("C08", "empty-domain-reported-consistent", f"{where}: domain {d} is empty [{lo},{hi}]")
                elif lo < elo or hi > ehi:
                    self.viol(
                        "C08",
                        "domain-grew",
                        f"{where}: domain {d} went from [{int(elo)},{int(ehi)}] to [{lo},{hi}]",
                    )
            if all(lo <= hi for lo, hi in box):
                self.fix_states.add(hash(tuple(map(tuple, box))))
                for k in range(self.P):
                    if not flags[k]:
                        continue
                    alg = self.m["props"][k][1]
                    st, res = self.shadow_exec(k, box)
                    if alg == "no_sub_cycle":
                        # by design it reacts only to instantiation: its verdict on the instantiated variables is
                        # judged by the reference semantics; a failure that only arises through its own pruning of
                        # non-instantiated variables is a different (recorded) class
                        vs = self.m["props"][k][0]
                        closed = closed_sub_cycle(
                            [
                                (box[self.m["idx"][v]][0] + self.m["off"][v])
                                if box[self.m["idx"][v]][0] == box[self.m["idx"][v]][1]
                                else None
                                for v in vs
                            ]
                        )
                        if closed:
                            self.viol(
                                "C08",
                                "sub-cycle-among-instantiated",
                                f"{where}: pass reported {'solved' if status == 2 else 'consistent'} on {box} but the "
                                f"instantiated successors of constraint #{k} close the sub-cycle {closed}",
                            )
                        elif st == PROP_INCONSISTENCY or any(lo > hi for lo, hi in res.values()):
                            self.probes["sub_cycle_cascade_failure"] += 1
                            self.viol(
                                "C08",
                                "sub-cycle-reexecution-fails-by-cascade",
                                f"{where}: pass reported {'solved' if status == 2 else 'consistent'} on {box}; "
                                f"re-executing no_sub_cycle #{k} prunes non-instantiated successors and thereby fails "
                                f"(it is not woken by bound changes)",
                            )
                        self.probes["shadow_reexecutions"] += 1
                        continue
                    if st == PROP_INCONSISTENCY or any(lo > hi for lo, hi in res.values()):
                        self.viol(
                            "C08",
                            "not-a-fixpoint-fails",
                            f"{where}: pass reported {'solved' if status == 2 else 'consistent'} on {box} but "
                            f"re-executing enabled constraint #{k} {alg}{self.m['props'][k][2]} fails",
                        )
                    elif alg != "no_sub_cycle":
                        for d, (lo, hi) in res.items():
                            if (lo, hi) != (box[d][0], box[d][1]) and (lo > box[d][0] or hi < box[d][1]):
                                self.viol(
                                    "C08",
                                    "not-a-fixpoint-prunes",
                                    f"{where}: pass reported {'solved' if status == 2 else 'consistent'} on {box} but "
                                    f"re-executing enabled constraint #{k} {alg}{self.m['props'][k][2]} "
                                    f"still changes domain {d} to [{lo},{hi}]",
                                )
                                break
                    self.probes["shadow_reexecutions"] += 1
        if "C07" in self.checks and all(lo <= hi for lo, hi in box):
            for k in range(self.P):
                if flags[k]:
                    continue
                self.disabled_checked += 1
                ok = R.prop_all_satisfied(self.m, k, box, self.cap)
                if ok is False:
                    vs, alg, params = self.m["props"][k]
                    self.viol(
                        "C07",
                        "disabled-constraint-can-be-violated",
                        f"{where}: constraint #{k} {alg}{params} is disabled but box {box} still contains a violating "
                        f"tuple",
                    )

    def around_shaving(self, orig, args):
        stack, ne, top_arr, queue = args[A_STACK], args[A_NE], args[A_TOP], args[A_QUEUE]
        top = int(top_arr[0])
        entry = stack[top].copy()
        self.c["sh"] += 1
        bc_box = None
        bc_status = None
        if "C10" in self.checks:
            bc_status, bc_box = self.plain_bc_on_copy(args)
        self.in_shaving += 1
        try:
            status = orig(*args)
        finally:
            self.in_shaving -= 1
        self.log("sh", top, int(status), stack[int(top_arr[0])].tobytes())
        if "C10" in self.checks:
            if int(top_arr[0]) != top:
                self.viol("C10", "stack-height", f"shaving left the stack at height {int(top_arr[0])}, found it at {top}")
            box = [[int(a), int(b)] for a, b in stack[top]]
            ebox = [[int(a), int(b)] for a, b in entry]
            if status != PROBLEM_INCONSISTENT:
                if bc_status == PROBLEM_INCONSISTENT:
                    self.viol("C10", "weaker-than-bc", f"plain BC refutes {ebox} but shaving returned status {status}")
                elif bc_box is not None:
                    for d, ((lo, hi), (blo, bhi)) in enumerate(zip(box, bc_box)):
                        if lo < blo or hi > bhi:
                            self.viol(
                                "C10",
                                "not-contained-in-bc",
                                f"shaving returned {box} from {ebox}; plain BC gives {bc_box}: domain {d} is larger",
                            )
                            break
            if R.space_size(ebox) <= self.cap and all(a <= b for a, b in ebox):
                sols = R.shr_solutions(self.m, ebox)
                self.probes["shaving_calls_checked"] += 1
                if status == PROBLEM_INCONSISTENT:
                    if sols:
                        self.viol("C10", "refuted-box-with-solution", f"shaving refuted {ebox} which contains {sols[0]}")
                else:
                    for s in sols:
                        if any(not (lo <= v <= hi) for v, (lo, hi) in zip(s, box)):
                            self.viol("C10", "lost-solution", f"shaving {ebox} -> {box} removed solution {list(s)}")
                            break
        if status in (PROBLEM_UNBOUND, PROBLEM_BOUND):
            self.quiescent_checks(entry, stack[top], ne[top], status, "shaving")
        return status

    def plain_bc_on_copy(self, args):
        a = list(args)
        for i in (A_STATS, A_STACK, A_NE, A_DUS, A_TOP, A_QUEUE):
            a[i] = a[i].copy()
        st = quiet_bc(a)
        if st is None:
            return None, None
        top = int(a[A_TOP][0])
        return int(st), [[int(x), int(y)] for x, y in a[A_STACK][top]]

    def around_shave_bound(self, orig, args):
        bound, dom_idx = int(args[0]), int(args[1])
        stack, ne, top_arr, queue = args[2 + A_STACK], args[2 + A_NE], args[2 + A_TOP], args[2 + A_QUEUE]
        top = int(top_arr[0])
        entry = stack[top].copy()
        entry_flags = ne[top].copy()
        self.c["shave"] += 1
        refuted = None
        if "C10" in self.checks:
            # would plain propagation refute dom_idx = bound value?  (all constraints woken: a complete pass)
            a = [x.copy() if isinstance(x, np.ndarray) and i - 2 in (A_STATS, A_STACK, A_NE, A_DUS, A_TOP, A_QUEUE)
                 else x for i, x in enumerate(args)]
            val = int(entry[dom_idx][bound])
            a[2 + A_STACK][top, dom_idx, :] = val
            a[2 + A_QUEUE][:] = True
            st = quiet_bc(a[2:])
            refuted = None if st is None else st == PROBLEM_INCONSISTENT
        seq0 = getattr(self, "exec_seq", 0)
        self.in_shave_bound += 1
        try:
            has_shaved = orig(*args)
        finally:
            self.in_shave_bound -= 1
        self.c["shave_ok" if has_shaved else "shave_no"] += 1
        self.log("sb", bound, dom_idx, bool(has_shaved))
        if "C10" in self.checks:
            if int(top_arr[0]) != top:
                self.viol("C10", "probe-stack-height", f"a shaving probe left the stack at {int(top_arr[0])}, was {top}")
            else:
                exp = entry.copy()
                if has_shaved:
                    exp[dom_idx][bound] += 1 if bound == 0 else -1
                if not np.array_equal(stack[top], exp):
                    self.viol(
                        "C10",
                        "probe-restore",
                        f"probe of bound {bound} of domain {dom_idx} (shaved={bool(has_shaved)}) turned "
                        f"{entry.tolist()} into {stack[top].tolist()}, expected {exp.tolist()}",
                    )
                if not np.array_equal(ne[top], entry_flags):
                    self.viol("C10", "probe-flags", "a shaving probe changed the disabled-constraint flags of its level")
            if has_shaved and int(top_arr[0]) == top:
                triggers = args[2 + A_TRIG]
                lo, hi = int(stack[top][dom_idx][0]), int(stack[top][dom_idx][1])
                need = (EV_MIN if bound == 0 else EV_MAX) | (EV_GROUND if lo == hi else 0)
                for p in range(len(queue)):
                    if ne[top][p] and (int(triggers[dom_idx, p]) & need) and not queue[p]:
                        # fine if the constraint has already been executed on the final domains inside the probe
                        le = getattr(self, "last_exec", {}).get(p)
                        box_now = [[int(a), int(b)] for a, b in stack[top]]
                        if le is not None and le[0] > seq0 and le[1] == self.views(p, box_now).tobytes():
                            continue
                        self.viol(
                            "C10",
                            "shaved-bound-not-announced",
                            f"a probe removed bound {bound} of domain {dom_idx} (now [{lo},{hi}], events {need}) but "
                            f"constraint #{p} {self.m['props'][p][1]} watching {int(triggers[dom_idx, p])} on it is not queued",
                        )
                        break
            if has_shaved and refuted is False and all(
                p[1] in R.BC_EXACT or p[1] == "affine_eq" for p in self.m["props"]
            ):
                self.viol(
                    "C10",
                    "shaved-without-refutation",
                    f"bound {bound} of domain {dom_idx} removed from {entry.tolist()} although a complete propagation "
                    f"pass with the domain fixed to {int(entry[dom_idx][bound])} is consistent",
                )
            self.probes["shave_probes_checked"] += 1
            if has_shaved:
                self.probes["shave_probe_refuted"] += 1
        return has_shaved

    # ----------------------------------------------------------------------------------------------- branching
    def around_var_h(self, i, f, args):
        if self.pending_alt is not None and "C09" in self.checks:
            self.viol("C09", "alternative-announcement-dropped", self.pending_alt)
            self.pending_alt = None
        params, decision, stack, top_arr = args
        dom = f(*args)
        top = int(top_arr[0])
        self.log("vh", i, int(dom))
        d = int(dom)
        box = stack[top]
        if "C04" in self.checks:
            if d < 0 or d >= len(box) or d not in [int(x) for x in decision] or box[d][0] >= box[d][1]:
                self.viol(
                    "C04",
                    "heuristic-nothing-to-branch-on",
                    f"variable heuristic {i} returned {d} in the unsolved state {box.tolist()} "
                    f"(decision domains {[int(x) for x in decision]})",
                )
        return dom

    def around_dom_h(self, i, f, args):
        params, stack, ne, dus, top_arr, dom_idx = args
        top0 = int(top_arr[0])
        box0 = stack[top0].copy()
        flags0 = ne[top0].copy()
        d = int(dom_idx)
        events = f(*args)
        top1 = int(top_arr[0])
        self.c["choice"] += 1
        self.c["pushed"] += max(0, top1 - top0)
        self.c["max_top"] = max(self.c["max_top"], top1)
        self.log("dh", i, d, int(events), top0, top1, stack[top1].tobytes())
        if "C09" in self.checks and 0 <= d < len(box0) and box0[d][0] < box0[d][1]:
            for msg in check_branch(stack, ne, dus, top0, top1, box0, flags0, d, int(events)):
                self.viol("C09", msg[0], f"value heuristic {i} on domain {d}=[{int(box0[d][0])},{int(box0[d][1])}]: {msg[1]}")
            self.probes["branch_checked"] += 1
            if int(box0[d][1]) - int(box0[d][0]) == 1:
                self.probes["branch_size2"] += 1
            if top1 - top0 == 2:
                self.probes["branch_three_way"] += 1
        for lvl in range(top0, top1):
            self.ref_stack[lvl] = (stack[lvl].copy(), ne[lvl].copy(), int(dus[lvl][0]), int(dus[lvl][1]))
        return events

    def around_backtrack(self, orig, args, who):
        stats, ne, dus, top_arr, queue, triggers = args
        top0 = int(top_arr[0])
        ok = orig(*args)
        top1 = int(top_arr[0])
        self.log("bt", who, top0, top1, bool(ok))
        if ok:
            self.c["bt_" + who] += 1
        if "C09" in self.checks:
            if top0 == 0:
                if ok or top1 != 0:
                    self.viol("C09", "backtrack-at-root", f"backtrack at level 0 returned {ok}, top={top1}")
            else:
                if not ok or top1 != top0 - 1:
                    self.viol("C09", "backtrack-pop", f"backtrack from level {top0} returned {ok}, top={top1}")
                elif who == "solver" and top1 in self.ref_stack:
                    box, flags, didx, dev = self.ref_stack.pop(top1)
                    stack = self.solver.shr_domains_stack
                    if not np.array_equal(stack[top1], box):
                        self.viol(
                            "C09",
                            "restored-domains",
                            f"after backtracking to level {top1} domains are {stack[top1].tolist()}, saved alternative "
                            f"was {box.tolist()}",
                        )
                    if not np.array_equal(ne[top1], flags):
                        self.viol(
                            "C09",
                            "restored-flags",
                            f"after backtracking to level {top1} enabled flags are {ne[top1].tolist()}, saved "
                            f"{flags.tolist()}",
                        )
                    for p in range(len(queue)):
                        if flags[p] and (int(triggers[didx, p]) & dev) and not queue[p]:
                            self.viol(
                                "C09",
                                "watchers-not-queued",
                                f"backtrack to level {top1} replays events {dev} on domain {didx} but constraint #{p} "
                                f"watching them is not queued",
                            )
                    self.probes["backtrack_checked"] += 1
                    if not all(flags):
                        self.probes["backtrack_with_disabled_flags"] += 1
        if "C09" in self.checks and who == "solver":
            if self.pending_alt is not None:
                self.viol("C09", "alternative-announcement-dropped", self.pending_alt)
            # the alternative just restored announced its bounds by queueing watchers: the next thing the engine does
            # with this state must be a propagation pass that starts from (at least) that queue
            self.pending_alt = None
            if ok and top1 == top0 - 1 and np.any(queue):
                self.pending_alt = (
                    f"the alternative restored at level {top1} queued constraints {np.flatnonzero(queue).tolist()} for the "
                    f"bounds it moved, but the state was used (solution returned / branched on / popped) before any "
                    f"propagation pass consumed that queue"
                )
                self.pending_queue = np.array(queue, copy=True)
        return ok


def closed_sub_cycle(succ):
    """succ[i] = successor of i or None.  Returns a closed cycle of length < n among the instantiated ones."""
    n = len(succ)
    for s in range(n):
        cur = s
        path = [s]
        for _ in range(n):
            nxt = succ[cur]
            if nxt is None or nxt < 0 or nxt >= n:
                break
            if nxt == s:
                if len(path) < n:
                    return path
                break
            if nxt in path:
                break
            path.append(nxt)
            cur = nxt
    return None


def quiet_bc(a):
    """Run the real bound consistency on COPIES of the state, unobserved, under a local step budget.  Returns the
    status or None when the copy run does not finish (no verdict is ever taken from that)."""
    from sim.steps import CLOCK, StepBudgetExceeded

    prev = seams.Tap.listener
    seams.Tap.listener = None
    outer = CLOCK.budget
    CLOCK.budget = CLOCK.count + 200_000
    try:
        return seams.ORIG["bc"](*a)
    except StepBudgetExceeded:
        return None
    except Exception:
        return None
    finally:
        CLOCK.budget = outer
        seams.Tap.listener = prev


def P_index(alg: str) -> int:
    from sim.nucsio import ALG_INDEX, _load

    _load()
    return ALG_INDEX[alg]


def check_branch(stack, ne, dus, top0, top1, box0, flags0, d, events):
    """C09 oracle for one branching decision: levels top0..top1-1 hold the alternatives, top1 the branch taken."""
    out = []
    if top1 <= top0:
        out.append(("no-choice-point", f"stack height went {top0}->{top1}"))
        return out
    a, b = int(box0[d][0]), int(box0[d][1])
    ranges = []
    for lvl in range(top0, top1 + 1):
        for j in range(len(box0)):
            if j != d and not np.array_equal(stack[lvl][j], box0[j]):
                out.append(("other-domain-touched", f"level {lvl}: domain {j} changed to {stack[lvl][j].tolist()}"))
        if not np.array_equal(ne[lvl], flags0):
            out.append(("flags-touched", f"level {lvl}: enabled flags changed"))
        lo, hi = int(stack[lvl][d][0]), int(stack[lvl][d][1])
        if lo > hi:
            out.append(("empty-sub-range", f"level {lvl}: sub-range [{lo},{hi}] is empty"))
        ranges.append((lo, hi, lvl))
    # non-empty sub-ranges, sorted, must tile [a,b] exactly (decided on the intervals: a wrong bound can be 2^31 away)
    tiles = sorted((lo, hi) for lo, hi, _ in ranges if lo <= hi)
    nxt = a
    ok = True
    for lo, hi in tiles:
        if lo != nxt:
            ok = False
            break
        nxt = hi + 1
    if not ok or nxt != b + 1:
        out.append(
            ("not-a-partition", f"sub-ranges {[(lo, hi) for lo, hi, _ in ranges]} do not partition [{a},{b}]")
        )
    # announced events
    lo, hi = int(stack[top1][d][0]), int(stack[top1][d][1])
    need = (EV_MIN if lo != a else 0) | (EV_MAX if hi != b else 0) | (EV_GROUND if lo == hi else 0)
    if need & ~events:
        out.append(("branch-events", f"branch [{lo},{hi}] moved events {need} but only {events} announced"))
    for lvl in range(top0, top1):
        lo, hi = int(stack[lvl][d][0]), int(stack[lvl][d][1])
        need = (EV_MIN if lo != a else 0) | (EV_MAX if hi != b else 0) | (EV_GROUND if lo == hi else 0)
        idx, ev = int(dus[lvl][0]), int(dus[lvl][1])
        if idx != d:
            out.append(("alternative-domain-index", f"level {lvl} records domain {idx}, expected {d}"))
        if need & ~ev:
            out.append(("alternative-events", f"alternative [{lo},{hi}] at level {lvl} moves {need}, records {ev}"))
    return out
