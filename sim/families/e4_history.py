"""E4 history-sim (C15): seeded sequences of operations executed in ONE interpreter (construct, partial enumeration,
suspend / resume, abandon, reuse a problem object, split, register custom propagator / heuristic / consistency
algorithm, run a shipped example).  Every observable (ordered solution list, statistics) must equal the clean-room
result of the same operation (only its own dependency chain, fresh interpreter), the whole history must give identical
observables interpreted and compiled, and again when run a second time."""
from __future__ import annotations

import json
import os
import subprocess
import sys
from collections import Counter
from typing import List, Optional

from sim import gen
from sim.families.e5_capacity import ROOT, repo_dir, worker_env
from sim.kernel import Choices, sha

WORKER = os.path.join(ROOT, "sim", "histworker.py")
TIMEOUT = 420
CHUNK_TIMEOUT = 6000


CHUNK = 1


def n_runs(tier: str) -> int:
    return 48 if tier == "quick" else 600


def prepare(params: dict):
    spec = {"models": [{"shr": [[0, 2], [0, 2]], "idx": [0, 1], "off": [0, 0], "props": [[[0, 1], "alldifferent", []]]}],
            "ops": [{"kind": "find_all", "model": 0, "cfg": dict(gen.DEFAULT_CONFIG, cons=c, dom_h=d)} for c in (0, 1) for d in (0, 1, 2, 3)]
            + [{"kind": "example", "name": "queens", "n": 4}]}
    execute(spec, True)


def execute(spec: dict, compiled: bool, alloc=None) -> Optional[List[dict]]:
    if alloc is not None and not compiled:
        spec = dict(spec, alloc=alloc)
    r = None
    for attempt in range(2):  # a history takes seconds; no answer within TIMEOUT twice in a row is a hang
        try:
            r = subprocess.run([sys.executable, WORKER, repo_dir(), ROOT, json.dumps(spec)], env=worker_env(compiled),
                               capture_output=True, text=True, timeout=TIMEOUT)
            break
        except subprocess.TimeoutExpired:
            r = None
    if r is None:
        return None
    out = []
    for l in r.stdout.splitlines():
        try:
            out.append(json.loads(l))
        except Exception:
            pass
    if r.returncode != 0:
        out.append({"error": f"interpreter exited with {r.returncode}: {r.stderr[-300:]}"})
    return out


def gen_history(ch: Choices, known: dict):
    opts = {"gcc_zero_cap": not known.get("gcc_zero_cap_excluded", False), "max_space": 300, "max_props": 2}
    nm = 1 + ch.choose(3, "nmodels")
    models = []
    for i in range(nm):
        with ch.scope(f"m{i}"):
            m = gen.magnify(ch, gen.gen_model(ch, opts))  # magnitude of parameters and of domains: where the two modes' integer widths differ
            models.append({k: m[k] for k in ("shr", "idx", "off", "props")})
    nops = 3 + ch.choose(8, "nops")
    ops = []
    live = []  # names of live solvers
    used_models = set()
    registered = set()
    for k in range(nops):
        with ch.scope(f"o{k}"):
            kinds = ["find_all", "find_all", "new_solver", "optimize", "split_solve", "register", "example", "use_custom"]
            if live:
                kinds += ["take", "take", "take", "abandon"]
            if ops and ops[-1]["kind"] == "register":
                kinds += ["use_custom"] * 6  # a registration is usually followed by a use
            if any(o["kind"] == "register" for o in ops):
                kinds += ["register"] * 2  # registrations come in groups
            kind = kinds[ch.choose(len(kinds), "kind")]
            m = ch.choose(nm, "model")
            cfg = gen.gen_config(ch, models[m]) if ch.chance(1, 2, "cfg.random") else dict(gen.DEFAULT_CONFIG)
            reuse = m in used_models and ch.chance(2, 3, "reuse_problem")
            # cost tables handed over in the caller's own int64 array, refilled once the solver is built: history,
            # removed in the clean room (where the same values arrive as plain lists)
            cbuf = (cfg["var_params"] != [[]] or cfg["dom_params"] != [[]]) and ch.chance(1, 2, "caller_buffer")
            if kind == "find_all":
                o = {"kind": kind, "model": m, "cfg": cfg, "reuse_problem": reuse, "caller_buffer": cbuf}
                if ch.chance(2, 5, "small_stack"):
                    o["height"] = 2 + ch.choose(3, "height")  # a capacity error must be the same error in both modes
                ops.append(o)
                used_models.add(m)
            elif kind == "new_solver":
                name = f"s{k}"
                ops.append({"kind": kind, "model": m, "cfg": cfg, "name": name, "reuse_problem": reuse, "caller_buffer": cbuf})
                live.append(name)
                used_models.add(m)
            elif kind == "take":
                ops.append({"kind": kind, "name": live[ch.choose(len(live), "which")], "n": 1 + ch.choose(3, "n")})
            elif kind == "abandon":
                ops.append({"kind": kind, "name": live.pop(ch.choose(len(live), "which"))})
            elif kind == "optimize":
                ops.append({"kind": kind, "model": m, "cfg": cfg, "reuse_problem": reuse, "caller_buffer": cbuf, "dir": ["min", "max"][ch.choose(2, "dir")],
                            "var": ch.choose(len(models[m]["idx"]), "var")})
                used_models.add(m)
            elif kind == "split_solve":
                ops.append({"kind": kind, "model": m, "cfg": cfg, "reuse_problem": reuse, "caller_buffer": cbuf, "k": 1 + ch.choose(4, "k"),
                            "var": ch.choose(len(models[m]["idx"]), "var")})
                used_models.add(m)
            elif kind == "register":
                prev_whats = [o["what"] for o in ops if o["kind"] == "register" and o["what"] != "propagator"]
                if prev_whats and ch.chance(1, 2, "same_kind_again"):
                    what = prev_whats[-1]  # several registrations of the same kind in one process
                else:
                    what = ["propagator", "dom_heuristic", "dom_heuristic", "var_heuristic", "consistency"][ch.choose(5, "what")]
                flavour = 0
                if what == "dom_heuristic":
                    prev = [o["flavour"] for o in ops if o["kind"] == "register" and o["what"] == "dom_heuristic" and o["flavour"]]
                    if prev and ch.chance(2, 3, "other_factory_product"):
                        flavour = 3 - prev[-1]  # the OTHER function made by the same factory (same qualified name)
                    else:
                        flavour = ch.choose(3, "flavour")
                ops.append({"kind": kind, "what": what, "flavour": flavour})
                registered.add(what)
            elif kind == "use_custom":
                ops.append({"kind": kind, "w": 1 + ch.choose(3, "w"), "with_heuristics": ch.chance(1, 2, "with_heuristics")})
            elif kind == "example":
                name = ["queens", "magic_sequence", "golomb"][ch.choose(3, "name")]
                ops.append({"kind": kind, "name": name, "n": {"queens": 4 + ch.choose(3, "n"), "magic_sequence": 4 + ch.choose(4, "n"), "golomb": 4 + ch.choose(2, "n")}[name]})
    return models, ops


def gen_wide(ch: Choices, known: dict):
    """Many independent problems, each solved once or twice: the workload of the mode differential (one interpreted
    and one compiled interpreter execute the same long list of calls)."""
    opts = {"gcc_zero_cap": not known.get("gcc_zero_cap_excluded", False), "max_space": 400, "max_props": 3, "pad_chance": 12}
    nm = 24 + ch.choose(17, "nmodels")
    models, ops = [], []
    for i in range(nm):
        with ch.scope(f"m{i}"):
            m = gen.magnify(ch, gen.gen_model(ch, opts))  # magnitude of parameters and of domains: where the two modes' integer widths differ
            models.append({k: m[k] for k in ("shr", "idx", "off", "props")})
            for j in range(1 + ch.choose(3, "ncalls")):
                with ch.scope(f"c{j}"):
                    cfg = gen.gen_config(ch, m) if ch.chance(3, 4, "cfg.random") else dict(gen.DEFAULT_CONFIG)
                    k = ch.weighted([5, 3, 1], "kind")
                    if k == 0:
                        o = {"kind": "find_all", "model": i, "cfg": cfg, "reuse_problem": j > 0 and ch.chance(1, 2, "reuse")}
                        if ch.chance(1, 5, "small_stack"):
                            o["height"] = 2 + ch.choose(3, "height")
                    elif k == 1:
                        o = {"kind": "optimize", "model": i, "cfg": cfg, "reuse_problem": j > 0 and ch.chance(1, 2, "reuse"),
                             "dir": ["min", "max"][ch.choose(2, "dir")], "var": ch.choose(len(m["idx"]), "var")}
                    else:
                        o = {"kind": "split_solve", "model": i, "cfg": cfg, "reuse_problem": False, "k": 1 + ch.choose(4, "k"),
                             "var": ch.choose(len(m["idx"]), "var")}
                    ops.append(o)
    return models, ops


def run_wide(ch: Choices, params: dict) -> dict:
    out = {"violations": [], "probes": Counter(), "faults": Counter(), "steps": 0, "nontrivial": True}
    if params.get("explicit"):  # a pinned scenario (known/, regress/): the list of calls written out
        models, ops = params["explicit"]["models"], params["explicit"]["ops"]
    else:
        models, ops = gen_wide(ch, params.get("known", {}))
    spec = {"models": models, "ops": ops}
    pats = [0xFF, 0xA5, 0x00, ["random", ch.choose(1 << 16, "alloc.seed")], None]
    alloc = pats[ch.choose(len(pats), "alloc")]
    interp = execute(spec, False, alloc)
    comp = execute(spec, True)
    out["probes"]["wide_histories"] += 1
    out["probes"]["operations"] += len(ops)
    out["probes"]["calls_compared_across_modes"] += len(ops)
    if alloc is not None:
        out["faults"]["dirty-allocator"] += 1
    if interp is None or comp is None:
        out["violations"].append({"property": "C15", "oracle": "history-hangs", "message": f"a list of {len(ops)} solver calls on {len(models)} generated problems gives no answer within {TIMEOUT}s (interpreted={interp is not None}, compiled={comp is not None})"})
    else:
        for j, o in enumerate(ops):
            a = interp[j] if j < len(interp) else None
            b = comp[j] if j < len(comp) else None
            if a != b:
                short = {k: v for k, v in o.items() if k != "cfg"} | {"cfg": [o["cfg"]["cons"], o["cfg"]["var_h"], o["cfg"]["dom_h"]]}
                what = "an error" if (a and "error" in a) != (b and "error" in b) else next((k for k in ("solutions", "stats", "domains", "error") if (a or {}).get(k) != (b or {}).get(k)), "?")
                out["violations"].append({"property": "C15", "oracle": "interpreted-differs-from-compiled", "message": f"[{gen.render_model(dict(models[o['model']]))} call {short}] {what} differ: interpreted {str(a)[:300]} compiled {str(b)[:300]}"})
                break
        out["probes"]["operations_raising"] += sum(1 for o in interp if "error" in o)
    out["log_sha"] = sha([interp, comp])
    out["key"] = sha(spec)[:16]
    out["sample"] = {"models": [gen.render_model(dict(m)) for m in models[:3]], "calls": len(ops)}
    return out


def clean_room_chain(ops: List[dict], i: int) -> List[dict]:
    """The operations op i legitimately depends on: its own solver's chain, registrations for use_custom."""
    op = ops[i]
    if op["kind"] == "take":
        chain = [o for o in ops[: i + 1] if o.get("name") == op["name"] and o["kind"] in ("new_solver", "take")]
        return [dict(o, reuse_problem=False, caller_buffer=False) for o in chain]
    if op["kind"] == "use_custom":
        # only the registrations this operation actually uses: the propagator and the LATEST heuristic / algorithm of
        # each kind (earlier registrations are history, and must not matter)
        last = {}
        for o in ops[:i]:
            if o["kind"] == "register":
                last[o["what"]] = o
        used = [o for w, o in last.items() if w == "propagator" or op.get("with_heuristics", True)]
        return used + [op]
    return [dict(op, reuse_problem=False, caller_buffer=False)]


def run(ch: Choices, focus: str = "C15", params: Optional[dict] = None) -> dict:
    params = params or {}
    if params.get("wide"):
        return run_wide(ch, params)
    out = {"violations": [], "probes": Counter(), "faults": Counter(), "steps": 0, "nontrivial": True}
    V = out["violations"]

    def viol(oracle, msg):
        if not any(v["oracle"] == oracle for v in V):
            V.append({"property": "C15", "oracle": oracle, "message": msg})

    models, ops = gen_history(ch, params.get("known", {}))
    spec = {"models": models, "ops": ops}
    short = [{k: v for k, v in o.items() if k != "cfg"} | ({"cfg": [o["cfg"]["cons"], o["cfg"]["var_h"], o["cfg"]["dom_h"]]} if "cfg" in o else {}) for o in ops]
    ctx = f"[models {[gen.render_model(dict(m)) for m in models]} history {short}] "
    # the three interpreted executions (run, rerun, clean rooms) get three different contents of never-written memory
    pats = [0xFF, 0xA5, 0x01, ["random", ch.choose(1 << 16, "alloc.seed")]]
    k = ch.choose(len(pats), "alloc")
    alloc1, alloc2, alloc3 = pats[k], [0x00, ["random", 77], 0xFF, 0x00][k], [0x80, 0x00, 0x00, 0xA5][k]
    out["faults"]["dirty-allocator"] += 3
    interp = execute(spec, False, alloc1)
    interp2 = execute(spec, False, alloc2)
    comp = execute(spec, True)
    out["probes"]["histories"] += 1
    out["probes"]["operations"] += len(ops)
    for o in ops:
        out["probes"]["op:" + o["kind"]] += 1
        if o.get("reuse_problem"):
            out["probes"]["problem_object_reused"] += 1
    if interp is None or comp is None or interp2 is None:
        viol("history-hangs", ctx + f"no answer within {TIMEOUT}s (interpreted={interp is not None}, compiled={comp is not None})")
    else:
        if interp != interp2:
            j = next((i for i, (a, b) in enumerate(zip(interp, interp2)) if a != b), None)
            viol("run-differs-from-rerun", ctx + f"operation {j} {short[j] if j is not None and j < len(short) else ''}: first run {str(interp[j])[:300]} second run {str(interp2[j])[:300]} (the two runs differ only in the contents of never-written memory handed out by np.empty: {alloc1} / {alloc2})")
        if interp != comp:
            j = next((i for i, (a, b) in enumerate(zip(interp, comp)) if a != b), min(len(interp), len(comp)))
            a = interp[j] if j < len(interp) else None
            b = comp[j] if j < len(comp) else None
            viol("interpreted-differs-from-compiled", ctx + f"operation {j} {short[j] if j < len(short) else ''}: interpreted {str(a)[:300]} compiled {str(b)[:300]}")
        # clean-room comparison for a seeded subset of the operations with observables
        cand = [i for i, o in enumerate(ops) if o["kind"] in ("take", "find_all", "optimize", "split_solve", "use_custom", "example")]
        ncr = min(len(cand), params.get("clean_room_per_history", 3))
        picked = []
        # operations that run registered functions are the history-sensitive ones: they go first
        pool = [i for i in cand if ops[i]["kind"] == "use_custom"][-2:]
        picked.extend(pool)
        pool = [i for i in cand if i not in picked]
        for t in range(max(0, ncr - len(picked))):
            if pool:
                picked.append(pool.pop(ch.choose(len(pool), f"cleanroom{t}")))
        for i in sorted(picked):
            chain = clean_room_chain(ops, i)
            cr = execute({"models": models, "ops": chain}, False, alloc3)
            out["probes"]["clean_room_comparisons"] += 1
            if cr is None:
                viol("clean-room-hangs", ctx + f"clean-room execution of operation {i} does not finish")
                continue
            a = interp[i] if i < len(interp) else None
            b = cr[-1] if cr else None
            if ops[i]["kind"] == "use_custom" and a and b:
                a = {k: v for k, v in a.items()}
                b = {k: v for k, v in b.items()}
            if a != b:
                viol("history-dependent-result", ctx + f"operation {i} {short[i]} gives {str(a)[:300]} inside the history but {str(b)[:300]} in a clean room (fresh interpreter, own dependency chain only)")
        if any("error" in o for o in interp):
            out["probes"]["operations_raising"] += sum(1 for o in interp if "error" in o)
    out["log_sha"] = sha([interp, comp])
    out["key"] = sha(spec)[:16]
    out["sample"] = {"models": [gen.render_model(dict(m)) for m in models], "history": short[:8]}
    return out
