"""E2 mp-sim: the real MultiprocessingSolver (parent loop, reducers, statistics aggregation) and the real
BacktrackSolver.*_and_queue workers over SimProcess/SimQueue with a virtual clock.  A seeded scheduler decides every
delivery, latency, stall, late pickle and death.  Serves C11 C12 C18 and the multi-process clauses of C01 C02 C03 C17.
"""
from __future__ import annotations

import os
import pickle

import copy
from collections import Counter
from typing import List, Optional

import numpy as np

from sim import gen, mpsim, nucsio, seams
from sim import refmodel as R
from sim.families.e1_engine import STAT_KEYS, check_stats, classify_exception, where_of
from sim.kernel import Choices, sha
from sim.monitors import EngineListener
from sim.steps import CLOCK, StepBudgetExceeded

WORKER_BUDGET = 1_500_000
DEADLINE_AFTER_LAST_EVENT_MS = 120_000


def run(ch: Choices, focus: str = "C11", params: Optional[dict] = None) -> dict:
    # the allocator's contents are one more seeded choice of the run (seams.dirty_allocator)
    if os.environ.get("NUMBA_DISABLE_JIT"):
        pat = seams.draw_pattern(ch)
        with seams.dirty_allocator(pat):
            out = _run(ch, focus, params)
        if pat is not None:
            out["faults"]["dirty-allocator"] += 1
        return out
    return _run(ch, focus, params)


def _run(ch: Choices, focus: str = "C11", params: Optional[dict] = None) -> dict:
    params = params or {}
    known = params.get("known", {})
    seams.install()
    CLOCK.install()
    out = {"violations": [], "probes": Counter(), "faults": Counter(), "steps": 0, "vtime": 0.0, "nontrivial": False}
    V = out["violations"]

    def viol(prop, oracle, msg):
        if not any(v["property"] == prop and v["oracle"] == oracle for v in V):
            V.append({"property": prop, "oracle": oracle, "message": msg})

    opts = {"gcc_zero_cap": not known.get("gcc_zero_cap_excluded", False), "max_space": 600, "max_props": 2}
    if params.get("allow_known"):
        opts["gcc_zero_cap"] = True
    if ch.chance(1, 4, "loose"):
        # long message streams: no or few constraints, so that most of the cartesian product is delivered
        opts["min_props"] = 0
        opts["max_props"] = 1
        opts["types"] = ["dummy", "affine_leq", "alldifferent", "max_leq"]
        opts["flavour_weights"] = [1, 0, 0]
    model = gen.gen_model(ch, opts)
    if focus in ("C11", "C03", "C12") and ch.chance(1, 10, "wide_table"):
        # objective values of both signs near 32 bits: what the reducer compares (and must not subtract in 32 bits)
        model = gen.wide_table_model(ch)
        out["probes"]["wide_table_models"] += 1
    out["model"] = gen.render_model(model)
    out["model_dict"] = {k: model[k] for k in ("shr", "idx", "off", "props")}
    ref = sorted(R.solutions(model))
    nv = len(model["idx"])
    # ------------------------------------------------------------------------------------------------ partition
    with ch.scope("part"):
        use_split = focus == "C12" or ch.chance(1, 2, "use_split")
        svar = ch.choose(nv, "var")
        sdom = model["idx"][svar]
        lo, hi = model["shr"][sdom]
        size = hi - lo + 1
        if use_split:
            k = 1 + ch.choose(min(size + 3, 6), "k")
        else:
            k = 1 + ch.choose(min(size, 5), "k")
    problem = nucsio.build_problem(model)
    sub_models: List[dict] = []
    sub_problems = []
    if use_split:
        s0, s0_it, s0_taken = None, None, []
        if ch.chance(1, 3, "solver_before_split"):
            # a realistic history: the problem was first given to a sequential solver (constructed, maybe run), then split
            try:
                s0 = nucsio.build_solver(problem, gen.DEFAULT_CONFIG)
                if ch.chance(1, 2, "solver_before_split.run"):
                    s0_it = s0.solve()
                    x = next(s0_it, None)
                    if x is not None:
                        s0_taken.append(tuple(int(v) for v in x))
            except Exception as e:
                if classify_exception(e) == "harness":
                    raise
                s0 = None
            out["probes"]["solver_constructed_before_split"] += 1
        before = snapshot_problem(problem)
        before_all = snapshot_everything(problem)
        try:
            sub_problems = problem.split(k, svar)
        except Exception as e:
            if classify_exception(e) == "harness":
                raise
            viol("C12", "split-crash", f"[{out['model']}] split({k}, {svar}) raised {type(e).__name__}: {e} at {where_of(e)}")
            return finish(out, ch, "split-crash")
        after = snapshot_problem(problem)
        if before != after:
            viol("C12", "original-changed", f"[{out['model']}] split({k}, {svar}) changed the original problem: {before} -> {after}")
        after_all = snapshot_everything(problem)
        if before_all != after_all:
            diff = sorted(k_ for k_ in set(before_all) | set(after_all) if before_all.get(k_) != after_all.get(k_))
            viol("C12", "original-changed", f"[{out['model']}] split({k}, {svar}) changed attributes {diff} of the original problem object "
                 f"({'a solver had been constructed on it' if s0 is not None else 'never given to a solver'})")
        if s0 is not None and ch.chance(1, 2, "solver_before_split.resume"):
            # the solver that was built on the original before the split is used (or used further) after it
            CLOCK.install()
            CLOCK.set_budget(WORKER_BUDGET * 4)
            try:
                rest = [tuple(int(v) for v in x) for x in (s0_it if s0_it is not None else s0.solve())]
                if sorted(s0_taken + rest) != ref:
                    viol("C12", "solver-on-original-differs-after-split", f"[{out['model']}] a solver built on the original before split({k}, {svar}) "
                         f"enumerates {len(s0_taken) + len(rest)} solutions after it, the reference has {len(ref)}")
            except StepBudgetExceeded:
                pass  # termination of the sequential solver is judged elsewhere (C04)
            except Exception as e:
                if classify_exception(e) == "harness":
                    raise
                viol("C12", "solver-on-original-broken-by-split", f"[{out['model']}] a solver built on the original before split({k}, {svar}) "
                     f"raises {type(e).__name__}: {e} at {where_of(e)} when it is used after the split")
            finally:
                CLOCK.clear_budget()
            out["probes"]["solver_on_original_used_after_split"] += 1
        for j, sp in enumerate(sub_problems):
            snap = snapshot_problem(sp)
            diff = [i for i, (a, b) in enumerate(zip(before["shr"], snap["shr"])) if a != b]
            if snap["idx"] != before["idx"] or snap["off"] != before["off"] or snap["props"] != before["props"] or \
                    len(snap["shr"]) != len(before["shr"]) or any(i != sdom for i in diff):
                viol(
                    "C12",
                    "sub-problem-differs-elsewhere",
                    f"[{out['model']}] split({k}, {svar}): sub-problem {j} differs from the original in more than the "
                    f"domain of variable {svar} (shared domain {sdom}): {snap} vs {before}",
                )
            sm = dict(model)
            sm["shr"] = [list(x) for x in snap["shr"]]
            sub_models.append(sm)
        if any(sp is problem for sp in sub_problems) or len(set(id(sp.shr_domains_lst) for sp in sub_problems)) != len(sub_problems):
            viol("C12", "aliasing", f"[{out['model']}] split({k}, {svar}) returned problems sharing state")
        out["probes"]["split_k_gt_size"] += 1 if k > size else 0
        out["probes"]["split_shared_domain_var"] += 1 if model["idx"].count(sdom) > 1 else 0
    else:
        # hand partition of the shared domain into k consecutive intervals
        cuts = sorted(set([lo] + [lo + 1 + ch.choose(max(1, size - 1), "part.cut") for _ in range(k - 1)]))
        cuts = [c for c in cuts if lo <= c <= hi]
        bounds = cuts + [hi + 1]
        for a, b in zip(bounds, bounds[1:]):
            sm = copy.deepcopy({kk: model[kk] for kk in ("shr", "idx", "off", "props")})
            sm["shr"][sdom] = [a, b - 1]
            sub_models.append(sm)
            sub_problems.append(nucsio.build_problem(sm))
    nw = len(sub_problems)
    if nw == 0:
        viol("C12", "no-sub-problem", f"[{out['model']}] split({k}, {svar}) returned no sub-problem")
        return finish(out, ch, "nosub")
    # ------------------------------------------------------------------------------------------- configurations
    cfgs = []
    with ch.scope("cfg"):
        same = not ch.chance(1, 3, "per_worker")
        base = gen.gen_config(ch, model) if ch.chance(1, 2, "random") else dict(gen.DEFAULT_CONFIG)
        for w in range(nw):
            cfgs.append(base if same else (gen.gen_config(ch, model) if ch.chance(1, 2, f"w{w}.random") else dict(gen.DEFAULT_CONFIG)))
    try:
        solvers = [nucsio.build_solver(sp, cfg) for sp, cfg in zip(sub_problems, cfgs)]
    except Exception as e:
        if classify_exception(e) == "harness":
            raise
        viol("C12", "sub-problem-unusable", f"[{out['model']}] a solver cannot be built on a sub-problem of split({k}, {svar}): {type(e).__name__}: {e}")
        return finish(out, ch, "ctor")
    # ------------------------------------------------------------------------------------------------ operation
    with ch.scope("op"):
        if focus == "C03":
            opk = 1 + ch.choose(2, "kind")
        elif focus in ("C12", "C02", "C01"):
            opk = 0 if not ch.chance(1, 5, "opt") else 1 + ch.choose(2, "kind")
        else:
            opk = ch.weighted([3, 1, 1], "kind")
        op = [["solve"], ["minimize", 0], ["maximize", 0]][opk]
        if opk:
            op = [op[0], ch.choose(nv, "objective")]
    # ----------------------------------------------------------------------------------------------- the plan
    with ch.scope("plan"):
        template = ["merge", "jitter", "sequential", "reverse", "slow", "race"][ch.choose(6, "template")]
        plan = {"template": template if template in mpsim.DELAYS else "jitter", "faults": {}, "start": {}}
        if template == "sequential":
            plan["start"] = {w: 100000 * w for w in range(nw)}
        elif template == "reverse":
            plan["start"] = {w: 100000 * (nw - 1 - w) for w in range(nw)}
        plan["late_pickle"] = ch.chance(1, 2, "late_pickle")
        # pipe capacity: the Linux default (64 KiB) or the smallest legal pipe (one page)
        plan["pipe_bytes"] = [65536, 4096][ch.choose(2, "pipe")]
        plan["opcost"] = [0, 1, 2, 5][ch.choose(4, "opcost")] if template != "race" else [2, 1, 3, 5][ch.choose(4, "opcost")]
        if ch.chance(1, 4, "stall"):
            plan["stall"] = {ch.choose(nw, "stall.w"): ch.choose(3, "stall.at")}
        if ch.chance(1, 3, "bystanders"):
            # the calling process owns other living children (an unrelated Process / Pool worker, the blocked workers
            # of an abandoned enumeration): whatever the parent asks the OS about "its children" sees them too
            plan["bystanders"] = 1 + ch.choose(4, "bystanders.n")
    cache = {}
    listeners = {}

    def run_worker(stream, clone, method, args, kwargs):
        em = nucsio.engine_model(sub_models[stream.w], clone.problem)
        L = EngineListener(em, clone, ch, "native", checks={"C04", "C07", "C09", "C10", "C17"})
        listeners[stream.w] = L
        stream.listener = L
        c0 = CLOCK.count
        from sim.families.e1_engine import step_budget

        CLOCK.set_budget(step_budget(sub_models[stream.w], {"cons": int(clone.consistency_alg_idx)}))
        try:
            with seams.attach(L):
                getattr(clone, method)(*args, **kwargs)
        except StepBudgetExceeded as e:
            stream.error = e
        except mpsim.HarnessUnsupported:
            raise
        except Exception as e:
            if classify_exception(e) == "harness":
                raise
            stream.error = e
        finally:
            CLOCK.clear_budget()
        stream.steps = CLOCK.count - c0
        out["steps"] += stream.steps

    pristine = [pickle.dumps(s_) for s_ in solvers]  # a parent may run a solver in the calling process and consume it
    parent = None
    with ch.scope("reuse"):
        if focus in ("C11", "C17") and ch.chance(1, 4, "second_call"):
            # the same MultiprocessingSolver instance serves two calls: the second one is the one judged
            parent = new_parent(solvers)
            first_plan = dict(plan, template="merge", start={}, stall={})
            k1 = ch.choose(3, "first_op")  # the earlier call may be of another kind (enumeration, then optimisation, ...)
            first_op = [["solve"], ["minimize", ch.choose(nv, "first_obj")], ["maximize", ch.choose(nv, "first_obj")]][k1]
            if first_op[0] == "solve" and ch.chance(1, 2, "first_abandoned"):
                # the consumer of the earlier enumeration stopped after a few solutions (or none): its workers are
                # still alive, blocked or busy, when the judged call starts - they are children of the caller too
                r1 = run_parent(ch, solvers, first_op, first_plan, run_worker, cache, parent=parent, abandon_after=ch.choose(3, "first_abandoned.n"))
                left = sum(1 for p_ in r1["procs"] if p_.started and p_._alive_now())
                if left:
                    plan["bystanders"] = plan.get("bystanders", 0) + left
                out["probes"]["earlier_enumeration_abandoned"] += 1
                out["probes"]["earlier_enumeration_abandoned_with_live_workers"] += 1 if left else 0
            else:
                run_parent(ch, solvers, first_op, first_plan, run_worker, cache, parent=parent)
            out["probes"]["second_call_on_same_instance"] += 1
            out["probes"]["second_call_of_another_kind"] += 1 if first_op[0] != op[0] else 0
    res = run_parent(ch, solvers, op, plan, run_worker, cache, parent=parent)
    out["vtime"] += res["vtime"]
    out["probes"]["queue_gets"] += res["gets"]
    out["probes"]["messages_delivered"] += len(res["delivery_order"])
    for kf, vf in res["fired"].items():
        out["faults"][kf] += vf
    streams = res["streams"]
    if len(streams) < nw and res["outcome"] == "returned" and focus != "C18":
        # the parent did not start a process for every solver (e.g. it ran one in the calling process, which the
        # property allows): what that worker would have reported is computed from a pristine copy of the solver
        have = {st.w for st in streams}
        for w in range(nw):
            if w not in have:
                streams.append(reference_stream(w, pristine[w], op, run_worker))
                out["probes"]["solver_not_run_as_a_process"] += 1
        streams.sort(key=lambda st: st.w)
    ctx = f"[{out['model']} parts={[sm['shr'][sdom] for sm in sub_models]} on d{sdom} op={op} cfgs={[(c['cons'], c['var_h'], c['dom_h']) for c in cfgs]} plan={plan_str(plan)}] "
    worker_failed = False
    for st in streams:
        if st.error is not None:
            worker_failed = True
            if isinstance(st.error, StepBudgetExceeded):
                viol("C12" if use_split else "C04", "worker-does-not-terminate",
                     ctx + f"worker {st.w} exceeded its budget of simulated steps ({st.error})")
                viol("C04", "step-budget", ctx + f"worker {st.w} exceeded its budget of simulated steps ({st.error})")
            else:
                e = st.error
                msg = ctx + f"worker {st.w} raised {type(e).__name__}: {e} at {where_of(e)}"
                viol("C12" if use_split else ("C03" if op[0] != "solve" else "C02"), "worker-crash", msg)
                if isinstance(e, IndexError):
                    viol("C16", "index-error", msg)
        if st.listener is not None:
            for v in st.listener.violations:
                viol(v["property"], v["oracle"], ctx + f"worker {st.w}: " + v["message"])
    order = res["delivery_order"]
    out["probes"]["interleaved_deliveries"] += 1 if any(a != b for a, b in zip(order, order[1:])) and len(set(order)) > 1 else 0
    if len(set(order)) > 1:
        firsts = {}
        lasts = {}
        for pos, w in enumerate(order):
            firsts.setdefault(w, pos)
            lasts[w] = pos
        if any(lasts[a] < firsts[b] for a in lasts for b in firsts if a != b):
            out["probes"]["a_worker_finished_before_another_started"] += 1
    # ------------------------------------------------------------------------------- fault-free oracles (C11 ...)
    if focus != "C18" and not worker_failed:
        judge_fault_free(res, op, model, ref, streams, solvers, viol, ctx, out, use_split)
    # ------------------------------------------------------------------------------------ fault enumeration (C18)
    if focus == "C18" and not worker_failed:
        enumerate_faults(ch, solvers, op, plan, run_worker, cache, streams, viol, ctx, out, params)
    out["log_sha"] = sha([res["log"], [str(v) for v in V]])
    return finish(out, ch, None, model, nw, op, plan, order)


def reference_stream(w, pickled_solver, op, run_worker):
    """The message stream and final statistics of worker `w`, from a pristine copy of its solver (same code path as
    SimProcess.start)."""
    stream = mpsim.Stream(w)
    clone = pickle.loads(pickled_solver)
    rec = mpsim._Recorder(stream)
    if op[0] == "solve":
        run_worker(stream, clone, "solve_and_queue", (w, rec), {})
    else:
        run_worker(stream, clone, f"{op[0]}_and_queue", (op[1], w, rec), {})
    stream.final_stats = np.array(clone.statistics, copy=True)
    if stream.msgs:
        stream.msgs[-1].stats_later = stream.final_stats
    return stream


def finish(out, ch, early, model=None, nw=0, op=None, plan=None, order=None):
    out.setdefault("log_sha", sha([early, [str(v) for v in out["violations"]]]))
    out["key"] = sha([out.get("model"), nw, op, plan_str(plan) if plan else None, order])[:16]
    out["nontrivial"] = early is None and nw >= 1 and bool(order)
    out["sample"] = {"model": out.get("model"), "workers": nw, "op": op, "plan": plan_str(plan) if plan else None,
                     "delivery_order": order}
    return out


def plan_str(plan):
    if not plan:
        return None
    return {k: (v if not isinstance(v, dict) else {str(a): b for a, b in v.items()}) for k, v in plan.items() if v}


def snapshot_problem(p) -> dict:
    return {
        "shr": [list(map(int, d)) for d in p.shr_domains_lst],
        "idx": [int(x) for x in p.dom_indices_lst],
        "off": [int(x) for x in p.dom_offsets_lst],
        "props": [[list(map(int, vs)), int(alg), list(map(int, params))] for vs, alg, params in p.propagators],
    }


def snapshot_everything(p) -> dict:
    """Every attribute of the problem object, arrays computed by init() included, in a comparable form."""
    out = {}
    for k_, v in vars(p).items():
        if hasattr(v, "tolist") and hasattr(v, "dtype"):
            out[k_] = [str(v.dtype), list(v.shape), v.tolist()]
        else:
            out[k_] = copy.deepcopy(v)
    return out


def new_parent(solvers):
    from nucs.solvers.multiprocessing_solver import MultiprocessingSolver

    with mpsim.detached():  # a queue created by the constructor is simulated too, and lives as long as the instance
        return MultiprocessingSolver(solvers, log_level="ERROR")


def run_parent(ch, solvers, op, plan, run_worker, cache, parent=None, abandon_after=None) -> dict:
    """Run the real parent against a fresh World fed from the (cached) worker streams.  `parent` may be an instance
    that has already served earlier calls (the parent never mutates its solvers, so reuse is legal)."""
    world = mpsim.World(ch, plan, run_worker, cache)
    if parent is None:
        parent = new_parent(solvers)
    res = {"yielded": [], "result": None, "outcome": "returned", "error": None, "stats": None, "stats_error": None}
    mpsim.adopt(world, parent)
    try:
        with mpsim.patched(world):
            if op[0] == "solve":
                api = ch.choose(3, "api")  # the three public ways to enumerate
                if abandon_after is not None:
                    it = parent.solve()
                    for s in it:
                        if len(res["yielded"]) >= abandon_after:
                            break
                        res["yielded"].append(tuple(int(x) for x in s))
                    it.close()
                elif api == 1:
                    res["yielded"].extend(tuple(int(x) for x in s) for s in parent.find_all())
                elif api == 2:
                    parent.solve_all(lambda s: res["yielded"].append(tuple(int(x) for x in s)))
                else:
                    for s in parent.solve():
                        res["yielded"].append(tuple(int(x) for x in s))
                        if len(res["yielded"]) > 100000:
                            raise mpsim.SimBusyWait("more than 100000 solutions yielded")
            elif op[0] == "minimize":
                res["result"] = parent.minimize(op[1])
            else:
                res["result"] = parent.maximize(op[1])
    except mpsim.SimDeadlock as e:
        res["outcome"], res["error"] = "deadlock", e
    except mpsim.SimBusyWait as e:
        res["outcome"], res["error"] = "busywait", e
    except mpsim.HarnessUnsupported:
        raise
    except Exception as e:
        import queue as _q

        if isinstance(e.__cause__, mpsim.HarnessUnsupported) or isinstance(e.__context__, mpsim.HarnessUnsupported):
            raise e.__context__ or e.__cause__

        if classify_exception(e) == "harness" and not (isinstance(e, _q.Empty) and _from_parent(e)):
            raise
        res["outcome"], res["error"] = "raised", e
    if res["outcome"] == "returned":
        try:
            res["stats"] = parent.get_statistics()
            # asking is not an event of the run: the answer to a repeated query must not move
            res["stats_again"] = [parent.get_statistics() for _ in range(2)]
        except Exception as e:
            res["stats_error"] = e
    res["now"] = world.now
    res["vtime"] = world.now / 1000.0
    res["gets"] = world.gets
    res["delivery_order"] = list(world.delivery_order)
    res["delivered"] = list(world.delivered)
    # messages of THIS call's workers; what an earlier call left in a queue owned by the parent object is that
    # implementation's business (it may tag calls and skip it) and is judged through the results only
    res["undelivered"] = [m for q in world.queues for m in q.undelivered() if m.w < mpsim.STALE_BASE]
    res["procs"] = world.procs
    res["streams"] = [p.stream for p in world.procs if p.stream is not None]
    res["fired"] = dict(world.fired)
    res["log"] = [res["outcome"], res["delivery_order"], world.now, world.gets, [list(s) for s in res["yielded"]],
                  None if res["result"] is None else [int(x) for x in res["result"]]]
    return res


def _from_parent(e) -> bool:
    import traceback

    tb = traceback.extract_tb(e.__traceback__)
    return any("/nucs/solvers/multiprocessing_solver.py" in fr.filename for fr in tb)


def judge_fault_free(res, op, model, ref, streams, solvers, viol, ctx, out, use_split):
    p12 = use_split
    owner = "C03" if op[0] != "solve" else "C02"  # "terminates and returns" / "and then stops" hold through this solver too
    if res["outcome"] == "deadlock":
        viol("C11", "extra-get-after-last-marker", ctx + f"parent blocks forever although every worker finished: {res['error']}")
        viol(owner, "mp-call-does-not-return", ctx + f"the call blocks forever although no worker failed: {res['error']}")
        return
    if res["outcome"] == "busywait":
        viol("C11", "busy-wait", ctx + f"{res['error']}")
        viol(owner, "mp-call-does-not-return", ctx + f"{res['error']}")
        return
    if res["outcome"] == "raised":
        e = res["error"]
        viol("C11", "parent-raised-without-fault", ctx + f"parent raised {type(e).__name__}: {e} although no worker failed (delivery order {res['delivery_order']})")
        return
    if res["undelivered"]:
        viol(
            "C11",
            "returned-before-all-workers-finished",
            ctx + f"call returned with {len(res['undelivered'])} message(s) of workers {sorted(set(m.w for m in res['undelivered']))} still in flight",
        )
    if op[0] == "solve":
        got = sorted(res["yielded"])
        for s in res["yielded"]:
            msg = R.check_solution(model, s)
            if msg:
                viol("C01", "mp-solution-violates", ctx + f"yielded {list(s)}: {msg}")
                break
        if got != ref:
            missing = [s for s in ref if s not in got][:3]
            extra = [s for s in got if s not in ref][:3]
            dup = [s for s in set(got) if got.count(s) > 1][:3]
            msg = ctx + f"yielded {len(got)} solutions, reference {len(ref)}; missing {missing} extra {extra} duplicated {dup} (delivery order {res['delivery_order']})"
            viol("C11", "multiset-differs", msg)
            viol("C02", "mp-multiset-differs", msg)
            if p12:
                viol("C12", "union-differs", msg)
        out["probes"]["mp_enumerations"] += 1
    else:
        v = op[1]
        r = res["result"]
        if r is not None:
            msg = R.check_solution(model, tuple(int(x) for x in r))
            if msg:
                viol("C01", "mp-solution-violates", ctx + f"returned {[int(x) for x in r]}: {msg}")
        if not ref:
            if r is not None:
                viol("C11", "result-on-infeasible", ctx + f"returned {[int(x) for x in r]} on an infeasible problem")
                viol("C03", "mp-result-on-infeasible", ctx + f"returned {[int(x) for x in r]} on an infeasible problem")
        else:
            best = min(s[v] for s in ref) if op[0] == "minimize" else max(s[v] for s in ref)
            if r is None:
                viol("C11", "none-on-feasible", ctx + f"returned None, optimum is {best} (delivery order {res['delivery_order']})")
                viol("C03", "mp-none-on-feasible", ctx + f"returned None, optimum is {best}")
            elif int(r[v]) != best:
                msg = ctx + f"returned value {int(r[v])} for variable {v}, optimum is {best} (delivery order {res['delivery_order']})"
                viol("C11", "not-optimal", msg)
                viol("C03", "mp-not-optimal", msg)
        out["probes"]["mp_optimisations"] += 1
    # statistics: element-wise sum (max for depth) of the workers' FINAL statistics
    if res["stats_error"] is not None:
        e = res["stats_error"]
        viol("C11", "get-statistics-raised", ctx + f"get_statistics() raised {type(e).__name__}: {e}")
    elif res["stats"] is not None:
        finals = [st.final_stats for st in streams]
        exp = {}
        for i, k in enumerate(STAT_KEYS):
            vals = [int(f[i]) for f in finals]
            exp[k] = max(vals) if k == "SOLVER_CHOICE_DEPTH" else sum(vals)
        if {k: res["stats"][k] for k in STAT_KEYS} != exp:
            bad = {k: (res["stats"][k], exp[k]) for k in STAT_KEYS if res["stats"][k] != exp[k]}
            msg = ctx + f"aggregated statistics differ from the sum/max of the workers' final statistics (got, expected): {bad} (delivery order {res['delivery_order']})"
            viol("C11", "statistics-aggregation", msg)
            viol("C17", "mp-statistics-aggregation", msg)
        for j, again in enumerate(res.get("stats_again") or []):
            if {k: again[k] for k in STAT_KEYS} != exp:
                bad = {k: (again[k], exp[k]) for k in STAT_KEYS if again[k] != exp[k]}
                msg = ctx + f"query #{j + 2} of get_statistics() after the same run differs from the sum/max of the workers' final statistics (got, expected): {bad}"
                viol("C11", "statistics-query-not-idempotent", msg)
                viol("C17", "mp-statistics-query-not-idempotent", msg)
                break
        # per worker conservation laws (C17)
        for st in streams:
            solver = solvers[st.w]
            L = st.listener
            if L is None:
                continue
            fake = _StatsView(st.final_stats)
            delivered = sum(1 for m in st.msgs if m.solution is not None)
            mode = ["find_all"] if op[0] == "solve" else [op[0], op[1]]
            cfg = {"cons": int(solver.consistency_alg_idx)}

            def v17(prop, oracle, msg, w=st.w):
                viol(prop, "mp-" + oracle, msg)

            check_stats(fake, L, cfg, mode, delivered, v17, ctx + f"worker {st.w}: ")


class _StatsView:
    def __init__(self, arr):
        self.arr = arr

    def get_statistics(self):
        return {k: int(self.arr[i]) for i, k in enumerate(STAT_KEYS)}


def enumerate_faults(ch, solvers, op, plan, run_worker, cache, streams, viol, ctx, out, params):
    """C18: every (worker, point of death, kind) of this scenario when there are few, a seeded sample otherwise,
    each under a freshly drawn delivery schedule; plus double deaths and deaths next to a stall."""
    combos = []
    for st in streams:
        n = len(st.msgs)  # last one is the completion marker
        for cut in range(n):  # dies after having put `cut` messages (never the marker)
            combos.append((st.w, cut, "exception", 0))
            combos.append((st.w, cut, "exit0", 0))
            for lost in range(0, min(cut, 2) + 1):
                combos.append((st.w, cut, "kill", lost))
    cap = params.get("max_faults_per_scenario", 30)
    exhaustive = len(combos) <= cap
    if not exhaustive:
        picked = []
        pool = list(combos)
        for i in range(cap):
            picked.append(pool.pop(ch.choose(len(pool), f"fault.pick{i}")))
        combos = picked
    out["probes"]["scenarios_enumerated_exhaustively"] += 1 if exhaustive else 0
    nw = len(streams)
    all_solutions = {st.w: [tuple(int(x) for x in m.solution) for m in st.msgs if m.solution is not None] for st in streams}
    for ci, (w, cut, kind, lost) in enumerate(combos):
        with ch.scope(f"f{ci}"):
            p = dict(plan)
            p["faults"] = {w: {"kind": kind, "cut": cut, "lost": lost}}
            if nw > 1 and ch.chance(1, 6, "second"):
                w2 = (w + 1 + ch.choose(nw - 1, "second.w")) % nw
                n2 = len(streams[w2].msgs)
                p["faults"][w2] = {"kind": ["exception", "kill", "exit0"][ch.choose(3, "second.kind")], "cut": ch.choose(n2, "second.cut"), "lost": 0}
                out["faults"]["double-death"] += 1
            p["template"] = ["merge", "jitter", "slow"][ch.choose(3, "template")]
            if nw > 1 and ch.chance(1, 4, "stall"):
                ws = (w + 1 + ch.choose(nw - 1, "stall.w")) % nw  # a SURVIVING worker stalls: it must not be given up on
                if ws not in p["faults"]:
                    p["stall"] = {ws: ch.choose(max(1, len(streams[ws].msgs)), "stall.at")}
            parent = None
            if ch.chance(1, 3, "reused_parent"):
                # the fault hits a later call of an instance that already completed a fault-free call
                parent = new_parent(solvers)
                run_parent(ch, solvers, op, dict(plan, faults={}, stall={}, start={}, template="merge"), run_worker, cache, parent=parent)
                out["faults"]["death-during-second-call-of-same-instance"] += 1
            res = run_parent(ch, solvers, op, p, run_worker, cache, parent=parent)
        out["probes"]["fault_scenarios"] += 1
        out["vtime"] += res["vtime"]
        for kf, vf in res["fired"].items():
            out["faults"][kf] += vf
        dead = set(p["faults"])
        fctx = ctx + f"faults={p['faults']} template={p['template']} stall={p.get('stall')} "
        last_event = max([pr.exit_time or 0 for pr in res["procs"]] + [m.t_avail for m in res["delivered"]] + [0])
        if res["outcome"] == "deadlock":
            viol("C18", "hang-after-worker-death", fctx + f"the caller blocks forever: {res['error']} (delivered {res['delivery_order']})")
            continue
        if res["outcome"] == "busywait":
            viol("C18", "busy-wait-after-worker-death", fctx + f"{res['error']}")
            continue
        if res["now"] > last_event + DEADLINE_AFTER_LAST_EVENT_MS:
            viol("C18", "not-within-bounded-time", fctx + f"the call ended at t={res['now']}ms, {res['now'] - last_event}ms after the last process exit / message")
        if res["outcome"] == "raised":
            out["probes"]["death_reported_by_exception"] += 1
            continue
        out["probes"]["death_survived_with_results"] += 1
        if op[0] == "solve":
            got = Counter(res["yielded"])
            need = Counter()
            allowed = Counter()
            for st in streams:
                if st.w in dead:
                    f = p["faults"][st.w]
                    n_put = min(f["cut"], len(st.msgs))
                    n_deliv = n_put - (min(f.get("lost", 0), n_put) if f["kind"] == "kill" else 0)
                    pre = [tuple(int(x) for x in m.solution) for m in st.msgs[:n_deliv] if m.solution is not None]
                    allowed.update(pre)
                else:
                    need.update(all_solutions[st.w])
                    allowed.update(all_solutions[st.w])
            if any(got[s] < c for s, c in need.items()):
                miss = [s for s, c in need.items() if got[s] < c][:3]
                viol("C18", "survivor-results-lost", fctx + f"returned without the solutions {miss} of surviving workers")
            if any(got[s] > allowed[s] for s in got):
                inv = [s for s in got if got[s] > allowed[s]][:3]
                viol("C18", "invented-or-duplicated", fctx + f"returned solutions {inv} that no worker delivered (that often)")
