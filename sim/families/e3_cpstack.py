"""E3 cp-machine: seeded legal sequences of branch / shrink / entail / backtrack applied directly to real stack
arrays through the real value heuristics and the real backtrack, against a reference stack.  Serves C09, the flag
part of C07, and C16 (interpreted mode as a bounds-checking monitor)."""
from __future__ import annotations

import os

from collections import Counter
from typing import Optional

import numpy as np

from sim import seams
from sim.families.e1_engine import classify_exception, where_of
from sim.kernel import Choices, sha
from sim.monitors import check_branch
from sim.steps import CLOCK, StepBudgetExceeded

LOWS = [0, 1, -1, -3, 2, -2, 5]
SIZES = [2, 3, 4, 1, 5, 6, 7]


def run(ch: Choices, focus: str = "C09", params: Optional[dict] = None) -> dict:
    # the allocator's contents are one more seeded choice of the run (seams.dirty_allocator)
    if os.environ.get("NUMBA_DISABLE_JIT"):
        pat = seams.draw_pattern(ch)
        with seams.dirty_allocator(pat):
            out = _run(ch, focus, params)
        if pat is not None:
            out["faults"]["dirty-allocator"] += 1
        return out
    return _run(ch, focus, params)


def _run(ch: Choices, focus: str = "C09", params: Optional[dict] = None) -> dict:
    seams.install()
    CLOCK.install()
    import nucs.heuristics.heuristics as H  # noqa
    from nucs.solvers.choice_points import cp_init

    out = {"violations": [], "probes": Counter(), "faults": Counter(), "steps": 0, "nontrivial": False}
    V = out["violations"]

    def viol(prop, oracle, msg):
        if not any(v["property"] == prop and v["oracle"] == oracle for v in V):
            V.append({"property": prop, "oracle": oracle, "message": msg})

    ndom = 1 + ch.choose(4, "ndom")
    nprop = ch.choose(4, "nprop")
    height = [16, 6, 10, 32][ch.choose(4, "height")]
    nonneg = ch.chance(1, 2, "nonneg")
    pad = [254, 256, 300][ch.choose(3, "pad.n")] if ch.chance(1, 12, "pad") else 0  # instantiated domains in front
    doms = [[0, 0] for _ in range(pad)]
    for i in range(ndom):
        size = SIZES[ch.choose(len(SIZES), f"d{i}.size")]
        lo = LOWS[ch.choose(len(LOWS), f"d{i}.lo")]
        if nonneg or pad:
            lo = abs(lo)
        doms.append([lo, lo + size - 1])
    ndom += pad
    width = max(hi for lo, hi in doms) + 1
    cost = np.array([[1 + ch.choose(3, "cost") for _ in range(max(1, width))] for _ in range(ndom)], dtype=np.int64)
    # the arrays are those a real BacktrackSolver allocates for a problem of this shape (dtypes and spare levels are
    # the tree's own); the constraints are placeholders, the trigger masks are then drawn at random
    from nucs.problems.problem import Problem
    from nucs.propagators.propagators import ALG_DUMMY
    from nucs.solvers.backtrack_solver import BacktrackSolver

    problem = Problem([(lo, hi) for lo, hi in doms])
    for _ in range(nprop):
        problem.add_propagator(([ndom - 1], ALG_DUMMY, []))
    solver = BacktrackSolver(problem, stack_max_height=height, log_level="ERROR")
    triggers = problem.triggers
    for i in range(pad, ndom):
        for p_ in range(nprop):
            triggers[i, p_] = ch.choose(8, "trig")
    stack, ne, dus, top = solver.shr_domains_stack, solver.not_entailed_propagators_stack, solver.dom_update_stack, solver.stacks_top
    queue, stats = solver.triggered_propagators, solver.statistics
    queue[:] = False
    height = min(height, len(stack))
    ref = []  # reference stack: levels below the current one: (box, flags, dom, events needed)
    cur_box = np.array(doms, dtype=np.int32)
    cur_flags = np.ones(nprop, dtype=bool)
    nops = 3 + ch.choose(20, "nops")
    oplog = []
    c0 = CLOCK.count
    CLOCK.set_budget(200_000)
    try:
        for k in range(nops):
            with ch.scope(f"o{k}"):
                t = int(top[0])
                if not np.array_equal(stack[t], cur_box) or not np.array_equal(ne[t], cur_flags):
                    viol("C09", "current-level-drift", f"ops {oplog}: level {t} holds {stack[t].tolist()} flags {ne[t].tolist()}, reference {cur_box.tolist()} {cur_flags.tolist()}")
                    break
                branchable = [d for d in range(pad, ndom) if cur_box[d][0] < cur_box[d][1]]
                kinds = []
                if branchable and t + 2 < height:
                    kinds += ["push"] * 4
                kinds += ["shrink"] if branchable else []
                kinds += ["entail"] if nprop and cur_flags.any() else []
                kinds += ["pop"] * 3
                kind = kinds[ch.choose(len(kinds), "kind")]
                if kind == "push":
                    d = branchable[ch.choose(len(branchable), "dom")]
                    nh = 5 if all(lo >= 0 for lo, hi in cur_box) else 4
                    h = ch.choose(nh, "heur")
                    f = seams.ORIG["dom_h"][h]
                    box0 = stack[t].copy()
                    flags0 = ne[t].copy()
                    events = int(f(cost, stack, ne, dus, top, d))
                    t1 = int(top[0])
                    oplog.append(("push", h, d, [int(box0[d][0]), int(box0[d][1])]))
                    out["probes"]["pushes"] += 1
                    if box0[d][1] - box0[d][0] == 1:
                        out["probes"]["push_size2"] += 1
                    if t1 - t == 2:
                        out["probes"]["push_three_way"] += 1
                    if any(lo < 0 for lo, hi in box0):
                        out["probes"]["push_negative"] += 1
                    if t1 <= t or t1 >= height:
                        viol("C09", "no-choice-point", f"ops {oplog}: heuristic {h} moved the stack {t}->{t1}")
                        break
                    for msg in check_branch(stack, ne, dus, t, t1, box0, flags0, d, events):
                        viol("C09", msg[0], f"ops {oplog}: value heuristic {h} on domain {d}=[{int(box0[d][0])},{int(box0[d][1])}]: {msg[1]}")
                    if h == 4:
                        # min-cost: the branch must be a cheapest value
                        br = stack[t1][d]
                        if br[0] == br[1]:
                            cheapest = min(int(cost[d][v]) for v in range(int(box0[d][0]), int(box0[d][1]) + 1))
                            if int(cost[d][int(br[0])]) != cheapest:
                                out["probes"]["min_cost_not_cheapest"] += 1
                    for lvl in range(t, t1):
                        ref.append((stack[lvl].copy(), ne[lvl].copy(), int(dus[lvl][0]), int(dus[lvl][1])))
                    cur_box = stack[t1].copy()
                    cur_flags = ne[t1].copy()
                elif kind == "shrink":
                    d = branchable[ch.choose(len(branchable), "dom")]
                    side = ch.choose(2, "side")
                    amt = 1 + ch.choose(int(cur_box[d][1] - cur_box[d][0]), "amt")
                    if side == 0:
                        stack[t][d][0] += amt
                    else:
                        stack[t][d][1] -= amt
                    cur_box = stack[t].copy()
                    oplog.append(("shrink", d, side, amt))
                elif kind == "entail":
                    en = [p for p in range(nprop) if cur_flags[p]]
                    p = en[ch.choose(len(en), "prop")]
                    ne[t][p] = False
                    cur_flags = ne[t].copy()
                    oplog.append(("entail", p))
                    out["probes"]["entailments"] += 1
                else:
                    queue[:] = False
                    f = seams.ORIG["backtrack"]
                    ok = bool(f(stats, ne, dus, top, queue, triggers))
                    t1 = int(top[0])
                    oplog.append(("pop", t, ok))
                    out["probes"]["pops"] += 1
                    if t == 0:
                        out["probes"]["pop_at_root"] += 1
                        if ok or t1 != 0:
                            viol("C09", "backtrack-at-root", f"ops {oplog}: backtrack at level 0 returned {ok}, top={t1}")
                        break
                    if not ok or t1 != t - 1:
                        viol("C09", "backtrack-pop", f"ops {oplog}: backtrack from level {t} returned {ok}, top={t1}")
                        break
                    box, flags, didx, dev = ref.pop()
                    if not np.array_equal(stack[t1], box):
                        viol("C09", "restored-domains", f"ops {oplog}: level {t1} holds {stack[t1].tolist()}, saved alternative {box.tolist()}")
                    if not np.array_equal(ne[t1], flags):
                        viol("C09", "restored-flags", f"ops {oplog}: level {t1} flags {ne[t1].tolist()}, saved {flags.tolist()}")
                        viol("C07", "flag-leak-across-backtrack", f"ops {oplog}: after backtracking to level {t1} the disabled-constraint flags are {ne[t1].tolist()}, those saved for the alternative were {flags.tolist()}")
                    if not flags.all():
                        out["probes"]["pop_with_disabled_flags"] += 1
                    if not np.array_equal(cur_flags, flags):
                        out["probes"]["pop_reenabled_a_constraint"] += 1
                    for p in range(nprop):
                        if flags[p] and (int(triggers[didx, p]) & dev) and not queue[p]:
                            viol("C09", "watchers-not-queued", f"ops {oplog}: backtrack to level {t1} replays events {dev} on domain {didx}; constraint #{p} watches {int(triggers[didx, p])} but is not queued")
                    cur_box = stack[t1].copy()
                    cur_flags = ne[t1].copy()
                if V:
                    break
    except StepBudgetExceeded as e:
        viol("C04", "step-budget", f"ops {oplog}: stack operation exceeded the step budget in {e}")
    except Exception as e:
        if classify_exception(e) == "harness":
            raise
        msg = f"ops {oplog} on domains {doms} height {height}: {type(e).__name__}: {e} at {where_of(e)}"
        if isinstance(e, IndexError):
            viol("C16", "index-error", msg)
        viol("C09", "crash", msg)
    finally:
        CLOCK.clear_budget()
    out["steps"] = CLOCK.count - c0
    out["log_sha"] = sha([oplog, [str(v) for v in V]])
    out["key"] = sha([doms[pad:], pad, [list(map(str, o)) for o in oplog]])[:16]
    out["nontrivial"] = len(oplog) >= 2 and any(o[0] == "push" for o in oplog)
    out["sample"] = {"domains": doms[pad:], "instantiated_padding_domains": pad, "height": height, "ops": [list(map(str, o)) for o in oplog][:12]}
    return out
