"""E6 models-sim (C20): the shipped models as workloads, compiled, in sacrificial interpreters: instance sizes within
reach x symmetry breaking on/off x configuration swarm x 0..4 simulated workers under seeded interleavings.
Definition-level validator on EVERY solution (sim/modelworker.py), counts from the literature or from brute force over
the definition, known optima, and symmetry-broken variants compared with the unbroken model."""
from __future__ import annotations

import json
import os
import subprocess
import sys
from collections import Counter
from typing import List, Optional

from sim.families.e5_capacity import ROOT, repo_dir, worker_env
from sim.kernel import Choices, sha

WORKER = os.path.join(ROOT, "sim", "modelworker.py")
TIMEOUT = 1800

QUEENS = {1: 1, 2: 0, 3: 0, 4: 2, 5: 10, 6: 4, 7: 40, 8: 92, 9: 352, 10: 724}
LATIN = {1: 1, 2: 2, 3: 12, 4: 576}
MAGIC_SQUARE = {3: 8, 4: 7040}  # all squares; 1 and 880 up to the 8 symmetries of the square
MAGIC_SEQUENCE = {4: 2, 5: 1, 6: 0, 7: 1, 8: 1, 9: 1, 10: 1, 20: 1, 50: 1}
GOLOMB = {3: 3, 4: 6, 5: 11, 6: 17, 7: 25, 8: 34}
SUDOKU_1 = [  # the two shipped test instances (proper puzzles: exactly one solution) + the classic Wikipedia puzzle
    [0, 0, 0, 0, 3, 0, 0, 0, 0], [2, 8, 9, 0, 0, 0, 0, 0, 0], [0, 0, 5, 7, 0, 0, 0, 9, 0], [0, 0, 0, 0, 0, 0, 8, 0, 6],
    [0, 0, 0, 3, 0, 0, 1, 0, 0], [7, 1, 0, 0, 0, 6, 0, 0, 2], [0, 6, 3, 0, 0, 0, 0, 0, 0], [0, 0, 0, 0, 4, 0, 2, 0, 0],
    [0, 0, 1, 0, 5, 0, 6, 0, 0],
]
SUDOKU_2 = [
    [6, 0, 0, 0, 1, 0, 0, 8, 0], [5, 1, 7, 4, 0, 0, 0, 0, 0], [0, 0, 3, 0, 0, 0, 0, 4, 0], [0, 0, 0, 0, 0, 0, 0, 0, 1],
    [0, 0, 0, 5, 0, 0, 3, 0, 0], [1, 6, 0, 0, 0, 9, 0, 5, 2], [2, 5, 9, 6, 0, 0, 0, 0, 0], [0, 0, 0, 0, 7, 0, 0, 0, 0],
    [0, 0, 0, 0, 5, 0, 4, 0, 0],
]
SUDOKU_3 = [
    [5, 3, 0, 0, 7, 0, 0, 0, 0], [6, 0, 0, 1, 9, 5, 0, 0, 0], [0, 9, 8, 0, 0, 0, 0, 6, 0], [8, 0, 0, 0, 6, 0, 0, 0, 3],
    [4, 0, 0, 8, 0, 3, 0, 0, 1], [7, 0, 0, 0, 2, 0, 0, 0, 6], [0, 6, 0, 0, 0, 0, 2, 8, 0], [0, 0, 0, 4, 1, 9, 0, 0, 5],
    [0, 0, 0, 0, 8, 0, 0, 7, 9],
]
KNAPSACK_TEST = ([40, 40, 38, 38, 36, 36, 34, 34, 32, 32, 30, 30, 28, 28, 26, 26, 24, 24, 22, 22], 55, 54)


GOLOMB_RULERS = {  # optimal rulers from the literature (validated by sim/modelworker.v_golomb before use)
    4: [0, 1, 4, 6], 5: [0, 1, 4, 9, 11], 6: [0, 1, 4, 10, 12, 17], 7: [0, 1, 4, 10, 18, 23, 25],
    8: [0, 1, 4, 9, 15, 22, 32, 34], 9: [0, 1, 5, 12, 25, 27, 35, 41, 44], 10: [0, 1, 6, 10, 23, 26, 34, 41, 53, 55],
    11: [0, 1, 4, 13, 28, 33, 47, 54, 64, 70, 72], 12: [0, 2, 6, 24, 29, 40, 43, 55, 68, 75, 76, 85],
    13: [0, 2, 5, 25, 37, 43, 59, 70, 85, 89, 98, 99, 106], 14: [0, 4, 6, 20, 35, 52, 59, 77, 78, 86, 89, 99, 122, 127],
}


def golomb_vector(marks, sym):
    n = len(marks)
    if sym and not (marks[1] - marks[0] < marks[-1] - marks[-2]):
        marks = [marks[-1] - m for m in reversed(marks)]  # the mirror image is the representative kept by symmetry breaking
    return [marks[j] - marks[i] for i in range(n - 1) for j in range(i + 1, n)]


def queens_solution(n):
    """Explicit construction (Hoffman, Loessi, Moore 1969) of one solution for n >= 4."""
    if n % 6 not in (2, 3):
        cols = list(range(2, n + 1, 2)) + list(range(1, n + 1, 2))
    elif n % 6 == 2:
        ev = list(range(2, n + 1, 2))
        od = [3, 1] + list(range(7, n + 1, 2)) + [5]
        cols = ev + od
    else:
        ev = list(range(4, n + 1, 2)) + [2]
        od = list(range(5, n + 1, 2)) + [1, 3]
        cols = ev + od
    q = [c - 1 for c in cols]
    return q + [q[i] + i for i in range(n)] + [q[i] - i for i in range(n)]


def siamese(n):
    """Magic square of odd order by the Siamese method, values 0..n^2-1, row major."""
    m = [[0] * n for _ in range(n)]
    i, j = 0, n // 2
    for k in range(n * n):
        m[i][j] = k
        i2, j2 = (i - 1) % n, (j + 1) % n
        if m[i2][j2] or (i2, j2) == (0, n // 2) and k > 0:
            i2, j2 = (i + 1) % n, j
        if k + 1 < n * n and (m[i2][j2] != 0 or (i2 == 0 and j2 == n // 2)):
            i2, j2 = (i + 1) % n, j
        i, j = i2, j2
    return [v for row in m for v in row]


def pandiagonal(n):
    """A pandiagonal magic square of order n prime to 6, values 0..n^2-1 (checked by the definition in the worker)."""
    return [[n * ((i + 2 * j) % n) + ((2 * i + j) % n) for j in range(n)] for i in range(n)]


def dihedral(flat, n):
    """The 8 images of a square given row major."""
    m = [list(flat[i * n : (i + 1) * n]) for i in range(n)]
    out = []
    for _ in range(4):
        m = [[m[n - 1 - j][i] for j in range(n)] for i in range(n)]  # quarter turn
        out.append([v for r in m for v in r])
        out.append([v for r in m for v in reversed(r)])  # and its mirror image
    return out


def perm(n, g):
    p = list(range(n))
    for i in range(n - 1, 0, -1):
        j = next(g) % (i + 1)
        p[i], p[j] = p[j], p[i]
    return p


def lcg(seed):
    x = seed * 2654435761 % (1 << 32)
    while True:
        x = (1103515245 * x + 12345) % (1 << 31)
        yield x >> 8  # the low bits of an LCG are not random


def points(tier: str) -> List[dict]:
    th = tier == "thorough"
    P = []
    for n in ([4, 5, 6, 7, 8] + ([9, 10] if th else [])):
        P.append({"spec": {"model": "queens", "n": n}, "count": QUEENS[n]})
    for n in (3, 4):
        P.append({"spec": {"model": "latin", "n": n}, "count": LATIN[n]})
        P.append({"spec": {"model": "latin_rc", "n": n}, "count": LATIN[n]})
    for n, c in ((5, None), (6, None), (7, 3), (8, 1)) + (((9, 0),) if th else ()):
        P.append({"spec": {"model": "qg5", "n": n, "sym": True, "cfg": {"var_h": 1}}, "count": c, "fix_var_h": 1})
    for n in (4, 5):
        P.append({"spec": {"model": "qg5", "n": n, "sym": False, "cfg": {"var_h": 1}, "brute": True}, "count": "brute", "fix_var_h": 1})
        P.append({"spec": {"model": "qg5", "n": n, "sym": True, "cfg": {"var_h": 1}, "brute": True}, "sat": "brute", "fix_var_h": 1})
    g2 = lcg(11)
    for i in range(6 if not th else 18):
        n = 4
        colors = [[0, 1, 2, 3], [1, 2, 3, 4], [2, 3, 4, 5], [-2, -1, 0, 1]][i % 4]  # every colour set in every tier
        base = [[colors[(r + c) % n] for c in range(n)] for r in range(n)]
        givens = [[base[r][c] if next(g2) % 3 == 0 else -9 for c in range(n)] for r in range(n)]
        if i % 2 == 0:
            givens[0][0] = base[0][0]  # the first colour (0 for zero-based colours) is given somewhere
            givens[1][1] = -9
        P.append({"spec": {"model": "latin", "n": n, "colors": colors, "givens": givens, "brute": True}, "count": "brute"})
    # known valid objects for models without a cheap exhaustive reference
    fano = [[1, 1, 1, 0, 0, 0, 0], [1, 0, 0, 1, 1, 0, 0], [1, 0, 0, 0, 0, 1, 1], [0, 1, 0, 1, 0, 1, 0], [0, 1, 0, 0, 1, 0, 1],
            [0, 0, 1, 1, 0, 0, 1], [0, 0, 1, 0, 1, 1, 0]]
    fano_vec = [v for row in fano for v in row]
    pairs = [(a, b) for a in range(7) for b in range(a + 1, 7)]
    fano_vec += [fano[a][j] * fano[b][j] for a, b in pairs for j in range(7)]
    P.append({"spec": {"model": "bibd", "v": 7, "b": 7, "r": 3, "k": 3, "l": 1, "sym": False, "fix_solution": fano_vec}, "count": 1, "accepts": True})
    schur13 = {1: 0, 4: 0, 10: 0, 13: 0, 2: 1, 3: 1, 11: 1, 12: 1, 5: 2, 6: 2, 7: 2, 8: 2, 9: 2}
    P.append({"spec": {"model": "schur", "n": 13, "sym": False, "fix_solution": [1 if schur13[x] == k else 0 for x in range(1, 14) for k in range(3)]}, "count": 1, "accepts": True})
    for n in (7, 12, 30, 60):
        ms = [n - 4, 2, 1] + [0] * (n - 7) + [1, 0, 0, 0]
        P.append({"spec": {"model": "magic_sequence", "n": n, "fix_solution": ms}, "count": 1, "accepts": True})
    for n in (5, 6) + ((7,) if th else ()):
        P.append({"spec": {"model": "qg5", "n": n, "sym": False, "cfg": {"var_h": 1}, "keep_solutions": True}, "count": None, "fix_var_h": 1,
                  "superset_of": {"model": "qg5", "n": n, "sym": True, "cfg": {"var_h": 1}, "keep_solutions": True}})
    for n in (3, 4, 5):
        P.append({"spec": {"model": "quasigroup", "n": n, "sym": False, "brute": True, "keep_solutions": True}, "count": "brute",
                  "superset_of": {"model": "quasigroup", "n": n, "sym": True, "keep_solutions": True}})
        P.append({"spec": {"model": "quasigroup", "n": n, "sym": True, "brute": True}, "sat": "brute"})
    P.append({"spec": {"model": "magic_square", "n": 3, "sym": False}, "count": 8})
    P.append({"spec": {"model": "magic_square", "n": 3, "sym": True}, "count": 1})
    P.append({"spec": {"model": "magic_square", "n": 4, "sym": True}, "count": 880})
    if th:
        P.append({"spec": {"model": "magic_square", "n": 4, "sym": False}, "count": 7040})
    for n in (4, 5, 6, 7, 8, 9, 10, 20) + ((50,) if th else ()):
        P.append({"spec": {"model": "magic_sequence", "n": n, "brute": n <= 6}, "count": MAGIC_SEQUENCE[n]})
    for n in (4, 5, 6, 7) + ((8,) if th else ()):
        for sym in (True, False):
            P.append({"spec": {"model": "golomb", "n": n, "sym": sym, "op": "opt"}, "optimum": GOLOMB[n]})
        P.append({"spec": {"model": "golomb", "n": n, "sym": True, "op": "opt", "cfg": {"golomb_alg": True}}, "optimum": GOLOMB[n], "fix_cons": True})
    # "the model accepts a known valid object" (sizes far beyond search reach): fixed to the object, exactly 1 solution
    for n in sorted(GOLOMB_RULERS):
        for sym in (False, True):
            P.append({"spec": {"model": "golomb", "n": n, "sym": sym, "fix_solution": golomb_vector(GOLOMB_RULERS[n], sym)}, "count": 1, "accepts": True})
    for n in (8, 9, 12, 14, 15, 20, 27, 50):
        P.append({"spec": {"model": "queens", "n": n, "fix_solution": queens_solution(n)}, "count": 1, "accepts": True})
    for n in (3, 5, 7, 9):
        P.append({"spec": {"model": "magic_square", "n": n, "sym": False, "fix_solution": siamese(n)}, "count": 1, "accepts": True})
    gm = lcg(101)
    for n in (8, 9, 14, 27, 50):
        P.append({"spec": {"model": "queens", "n": n, "fix_many": [q + [q[i] + i for i in range(n)] + [q[i] - i for i in range(n)] for q in near_misses(queens_solution(n)[:n], 80 if not th else 400, gm, 0, n - 1)]}, "by_validator": True})
    for n in (3, 5, 7):
        P.append({"spec": {"model": "magic_square", "n": n, "sym": False, "fix_many": near_misses(siamese(n), 60 if not th else 300, gm, 1, n * n)}, "by_validator": True})
    for n in (4, 5, 8):
        P.append({"spec": {"model": "latin", "n": n, "fix_many": near_misses([(i + j) % n for i in range(n) for j in range(n)], 60 if not th else 300, gm, 0, n - 1)}, "by_validator": True})
    for n in (5, 8, 12):
        P.append({"spec": {"model": "latin", "n": n, "fix_solution": [(i + j) % n for i in range(n) for j in range(n)]}, "count": 1, "accepts": True})
    # Objects that do not come from one textbook construction (a construction has structure of its own - the Siamese
    # method always puts the median in the centre - and a model that is wrong only off that structure would pass):
    # whole orbits of known objects under the symmetries of the problem, judged one by one by the definition.
    for n in (5, 7) + ((11,) if th else ()):
        pd = pandiagonal(n)  # every toroidal shift of a pandiagonal square is magic: n^2 squares with every centre
        shifts = [[pd[(i + a) % n][(j + b) % n] for i in range(n) for j in range(n)] for a in range(n) for b in range(n)]
        if n > 7:
            shifts = shifts[:: 3]
        P.append({"spec": {"model": "magic_square", "n": n, "sym": False, "fix_many": shifts + [[n * n - 1 - v for v in x] for x in shifts[:10]]}, "by_validator": True})
        for x in shifts[1 : (4 if not th else 12)]:
            # symmetry breaking must keep at least one of the 8 images of any magic square
            P.append({"spec": {"model": "magic_square", "n": n, "sym": True, "fix_many": dihedral(x, n)}, "min_count": 1})
    for n in (3, 5):
        P.append({"spec": {"model": "magic_square", "n": n, "sym": True, "fix_many": dihedral(siamese(n), n)}, "min_count": 1})
    for n in (8, 9, 14, 27):
        q = queens_solution(n)[:n]
        imgs = []
        for img in dihedral([1 if q[i] == j else 0 for i in range(n) for j in range(n)], n):
            qq = [img[i * n : (i + 1) * n].index(1) for i in range(n)]
            imgs.append(qq + [qq[i] + i for i in range(n)] + [qq[i] - i for i in range(n)])
        P.append({"spec": {"model": "queens", "n": n, "fix_many": imgs}, "by_validator": True})
    for n in (4, 5, 8):
        iso = []
        for c in range(30 if not th else 120):
            pr, pc, ps = (perm(n, gm) for _ in range(3))  # an isotope of the cyclic square: rows, columns, symbols permuted
            x = [ps[(pr[i] + pc[j]) % n] for i in range(n) for j in range(n)]
            if x not in iso:  # two draws may give the same square: a candidate offered twice is accepted twice
                iso.append(x)
        P.append({"spec": {"model": "latin", "n": n, "fix_many": iso}, "by_validator": True})
    for v, b, r, k, l in ((3, 3, 2, 2, 1), (4, 6, 3, 2, 1), (4, 4, 3, 3, 2), (5, 5, 4, 4, 3), (3, 6, 4, 2, 2)):
        P.append({"spec": {"model": "bibd", "v": v, "b": b, "r": r, "k": k, "l": l, "sym": False, "brute": True}, "count": "brute"})
        P.append({"spec": {"model": "bibd", "v": v, "b": b, "r": r, "k": k, "l": l, "sym": True, "brute": True}, "sat": "brute"})
    # a grid of tiny parameter sets, admissible (v*r == b*k, l*(v-1) == r*(k-1)) or not: the count is whatever the
    # definition gives by brute force, 0 for most of them
    grid = [(v, b, r, k, l) for v in (2, 3) for b in (2, 3, 4) for r in range(1, b + 1) for k in range(1, v + 1) for l in range(0, r + 1)]
    gg = lcg(23)
    picked = sorted(set(grid[next(gg) % len(grid)] for _ in range(14 if not th else 60)))
    for v, b, r, k, l in picked:
        P.append({"spec": {"model": "bibd", "v": v, "b": b, "r": r, "k": k, "l": l, "sym": False, "brute": True}, "count": "brute"})
        P.append({"spec": {"model": "bibd", "v": v, "b": b, "r": r, "k": k, "l": l, "sym": True, "brute": True}, "sat": "brute"})
    for v, b, r, k, l in ((6, 10, 5, 3, 2), (7, 7, 3, 3, 1)):
        P.append({"spec": {"model": "bibd", "v": v, "b": b, "r": r, "k": k, "l": l, "sym": True}, "sat": True})
    for n in (3, 4, 5, 6, 7, 8, 9):
        P.append({"spec": {"model": "schur", "n": n, "sym": False, "brute": True}, "count": "brute"})
        P.append({"spec": {"model": "schur", "n": n, "sym": True, "brute": True}, "sat": "brute"})
    P.append({"spec": {"model": "schur", "n": 13, "sym": True}, "sat": True})
    P.append({"spec": {"model": "schur", "n": 14, "sym": True}, "sat": False})
    P.append({"spec": {"model": "schur", "n": 13, "sym": False}, "count": 18})
    P.append({"spec": {"model": "schur", "n": 14, "sym": False}, "sat": False})
    for n in (6, 8):
        P.append({"spec": {"model": "sports", "n": n, "sym": True, "limit": 1}, "sat": True})
    P.append({"spec": {"model": "sports", "n": 6, "sym": False, "limit": 3}, "sat": True})
    P.append({"spec": {"model": "sports", "n": 4, "sym": False, "brute": True}, "count": "brute"})
    P.append({"spec": {"model": "sports", "n": 4, "sym": True, "brute": True}, "sat": "brute"})
    P.append({"spec": {"model": "sports", "n": 2, "sym": False}, "count": 1})
    w, cap, best = KNAPSACK_TEST
    P.append({"spec": {"model": "knapsack", "weights": w, "volumes": w, "capacity": cap, "op": "opt"}, "optimum": best})
    g = lcg(7)
    for i in range(6 if not th else 20):
        n = 5 + next(g) % 6
        ws = [1 + next(g) % 30 for _ in range(n)]
        vs = [1 + next(g) % 30 for _ in range(n)]
        cap = sum(vs) // 2 + next(g) % 10
        P.append({"spec": {"model": "knapsack", "weights": ws, "volumes": vs, "capacity": cap, "op": "opt", "brute": True}, "optimum": "brute"})
    for i in range(8 if not th else 30):
        n = 4 + next(g) % 3
        c = [[0 if a == b else 1 + next(g) % 20 for b in range(n)] for a in range(n)]
        if i % 3 == 0:  # one third symmetric, two thirds asymmetric (a directed successor model: asymmetric costs are legal)
            c = [[c[min(a, b)][max(a, b)] for b in range(n)] for a in range(n)]
        P.append({"spec": {"model": "tsp", "costs": c, "op": "opt", "brute": True, "cfg": {"tsp_heuristics": bool(i % 2)}}, "optimum": "brute", "fix_heur": bool(i % 2)})
    for i in range(4 if not th else 12):
        # null costs between distinct vertices are legal (found the TSP lower-bound defect, DESIGN.md 8.2); the shipped
        # cost heuristics require strictly positive costs, so these instances use the default heuristics
        n = 3 + next(g) % 3
        c = [[0 if a == b else next(g) % 6 for b in range(n)] for a in range(n)]
        P.append({"spec": {"model": "tsp", "costs": c, "op": "opt", "brute": True, "cfg": {}}, "optimum": "brute", "fix_heur": True})
    for n in (3, 4, 5, 6, 7, 8) + ((9,) if th else ()):
        P.append({"spec": {"model": "circuit", "n": n, "brute": True}, "count": "brute"})
    for i in range(3 if not th else 10):
        # sizes at which the path bookkeeping of the sub-cycle constraint merges long paths
        n = 7 + next(g) % 3
        c = [[0 if a == b else 1 + next(g) % 9 for b in range(n)] for a in range(n)]
        P.append({"spec": {"model": "tsp", "costs": c, "op": "opt", "brute": True, "cfg": {"tsp_heuristics": bool(i % 2)}}, "optimum": "brute", "fix_heur": bool(i % 2)})
    for n in (8, 9, 10, 12, 16):
        # fully instantiated successor vectors, Hamiltonian or made of several cycles (every cycle type, in every index
        # order): the model must accept exactly the Hamiltonian ones
        cands = successor_candidates(n, 150 if not th else 600, g)
        P.append({"spec": {"model": "circuit", "n": n, "fix_many": cands}, "count": sum(1 for s_ in cands if hamiltonian(s_))})
    # smallest sizes and degenerate parameters of every model
    for n in (1, 2, 3):
        P.append({"spec": {"model": "queens", "n": n}, "count": QUEENS[n]})
        P.append({"spec": {"model": "magic_sequence", "n": n, "brute": True}, "count": "brute"})
        P.append({"spec": {"model": "quasigroup", "n": n, "sym": False, "brute": True}, "count": "brute"}) if n > 1 else None
    for n in (1, 2):
        P.append({"spec": {"model": "latin", "n": n}, "count": LATIN[n]})
        P.append({"spec": {"model": "latin_rc", "n": n}, "count": LATIN[n]})
        P.append({"spec": {"model": "schur", "n": n, "sym": False, "brute": True}, "count": "brute"})
        P.append({"spec": {"model": "schur", "n": n, "sym": True, "brute": True}, "sat": "brute"})
    P.append({"spec": {"model": "magic_square", "n": 2, "sym": False}, "count": 0})
    P.append({"spec": {"model": "golomb", "n": 3, "sym": True, "op": "opt"}, "optimum": 3})
    P.append({"spec": {"model": "golomb", "n": 3, "sym": False, "op": "opt"}, "optimum": 3})
    P.append({"spec": {"model": "circuit", "n": 2, "brute": True}, "count": "brute"})
    for i in range(4 if not th else 12):
        n = 3 + next(g) % 4
        ws = [next(g) % 8 for _ in range(n)]  # null weights and volumes are legal
        vs = [next(g) % 8 for _ in range(n)]
        P.append({"spec": {"model": "knapsack", "weights": ws, "volumes": vs, "capacity": next(g) % (sum(vs) + 2), "op": "opt", "brute": True}, "optimum": "brute"})
    for i in range(6 if not th else 18):
        # instance data on the boundaries of the model's comparisons: an item that fills the knapsack exactly and is
        # worth more than everything else together (or not), an item one unit too big, all items together fitting exactly
        n = 3 + next(g) % 3
        ws = [1 + next(g) % 9 for _ in range(n)]
        vs = [1 + next(g) % 6 for _ in range(n)]
        j = next(g) % n
        shape = i % 3
        if shape == 0:
            cap = max(vs) + 1 + next(g) % 4
            vs[j] = cap
            ws[j] = sum(ws) + 1 if next(g) % 3 else ws[j]
        elif shape == 1:
            cap = max(vs) + next(g) % 3
            vs[j] = cap + 1
            ws[j] = sum(ws) + 1
        else:
            cap = sum(vs)
        P.append({"spec": {"model": "knapsack", "weights": ws, "volumes": vs, "capacity": cap, "op": "opt", "brute": True}, "optimum": "brute"})
    P = [p for p in P if p is not None]
    P.append({"spec": {"model": "sudoku", "givens": SUDOKU_1}, "count": 1})
    P.append({"spec": {"model": "sudoku", "givens": SUDOKU_2}, "count": 1})
    P.append({"spec": {"model": "sudoku", "givens": SUDOKU_3}, "count": 1})
    P.append({"spec": {"model": "alpha"}, "count": 1, "slow": True})
    P.append({"spec": {"model": "donald"}, "count": 1})
    P.extend(program_points(th))
    return P


def program_points(th: bool) -> List[dict]:
    """The shipped example PROGRAMS (python -m nucs.examples.<x> <arguments>), executed as shipped: their own solver
    configuration, decision domains, heuristic parameters, custom consistency algorithm and split over processors."""
    P = []

    def prog(model, module, argv, **kw):
        spec = dict(kw.pop("spec", {}), model=model, main="nucs.examples." + module, argv=argv)
        P.append(dict(kw, spec=spec, program=True, fix_cons=True, fix_heur=True))

    for n, extra in ((4, []), (6, ["--ff"]), (5, ["--shaving"]), (7, ["--processors", 2]), (8, ["--processors", 3, "--shaving", "--ff"]),
                     (8, ["--processors", 4]), (6, ["--processors", 8])) + (((10, ["--processors", 5]), (9, ["--shaving", "--processors", 2])) if th else ()):
        prog("queens", "queens", ["-n", n] + extra, spec={"n": n}, count=QUEENS[n])
    for n in (4, 7, 10, 20) + ((50, 100) if th else ()):
        prog("magic_sequence", "magic_sequence", ["-n", n], spec={"n": n}, count=MAGIC_SEQUENCE.get(n, 1))
    for n, sym in ((5, True), (6, True), (6, False)) + (((8, True),) if th else ()):
        prog("golomb", "golomb", ["-n", n] + ([] if sym else ["--no-symmetry_breaking"]), spec={"n": n, "sym": sym}, optimum=GOLOMB[n])
    w, cap, best = KNAPSACK_TEST
    prog("knapsack", "knapsack", [], spec={"weights": w, "volumes": w, "capacity": cap}, optimum=best)
    prog("alpha", "alpha", [], count=1)
    prog("donald", "donald", [], count=1, stats_printed_before_solving=True)
    for (v, b, r, k, l), sym in (((7, 7, 3, 3, 1), True), ((6, 10, 5, 3, 2), True), ((4, 6, 3, 2, 1), False), ((3, 3, 2, 2, 1), False)):
        prog("bibd", "bibd", ["-v", v, "-b", b, "-r", r, "-k", k, "-l", l] + ([] if sym else ["--no-symmetry_breaking"]),
             spec={"v": v, "b": b, "r": r, "k": k, "l": l, "sym": sym, "brute": not sym}, **({"sat": True} if sym else {"count": "brute"}))
    prog("magic_square", "magic_square", ["-n", 3], spec={"n": 3, "sym": True}, count=1)
    prog("magic_square", "magic_square", ["-n", 3, "--no-symmetry_breaking"], spec={"n": 3, "sym": False}, count=8)
    prog("magic_square", "magic_square", ["-n", 4], spec={"n": 4, "sym": True}, count=880)
    prog("qg5", "quasigroup", ["-n", 7], spec={"n": 7, "sym": True}, count=3)
    prog("qg5", "quasigroup", ["-n", 8], spec={"n": 8, "sym": True}, count=1)
    prog("qg5", "quasigroup", ["-n", 5, "--no-symmetry_breaking"], spec={"n": 5, "sym": False, "brute": True}, count="brute")
    prog("schur", "schur_lemma", ["-n", 13], spec={"n": 13, "sym": True}, sat=True)
    prog("schur", "schur_lemma", ["-n", 14], spec={"n": 14, "sym": True}, sat=False)
    prog("schur", "schur_lemma", ["-n", 13, "--no-symmetry_breaking"], spec={"n": 13, "sym": False}, count=18)
    for n in (6, 8):
        prog("sports", "sports_tournament_scheduling", ["-n", n], spec={"n": n, "sym": True}, sat=True, first_only=True)
    prog("sports", "sports_tournament_scheduling", ["-n", 6, "--no-symmetry_breaking"], spec={"n": 6, "sym": False}, sat=True, first_only=True)
    if th:
        prog("tsp", "tsp", ["--name", "GR17"], spec={"costs": "GR17"}, optimum=2085)
    return P


def near_misses(base: list, count: int, g, lo: int, hi: int) -> list:
    """A valid object and small edits of it (two cells exchanged, one cell changed, a valid object edited twice): most
    are not valid any more; which ones are is decided by the definition-level validator in the worker."""
    out = [list(base)]
    n = len(base)
    for c in range(count):
        x = list(base)
        for _ in range(1 + c % 2):
            k = next(g) % 3
            i, j = next(g) % n, next(g) % n
            if k == 0:
                x[i], x[j] = x[j], x[i]
            elif k == 1:
                x[i] = lo + next(g) % (hi - lo + 1)
            else:
                x[i] = max(lo, min(hi, x[i] + (1 if next(g) % 2 else -1)))
        if x not in out:
            out.append(x)
    return out


def hamiltonian(succ) -> bool:
    n = len(succ)
    if sorted(succ) != list(range(n)):
        return False
    cur, k = 0, 0
    while True:
        cur = succ[cur]
        k += 1
        if cur == 0 or k > n:
            break
    return k == n


def successor_candidates(n: int, count: int, g) -> list:
    """Permutations of 0..n-1 given as successor vectors: random cycle types over randomly relabelled vertices."""
    out = []
    for c in range(count):
        labels = list(range(n))
        for i in range(n - 1, 0, -1):
            j = next(g) % (i + 1)
            labels[i], labels[j] = labels[j], labels[i]
        # cut the relabelled sequence into cycles: one cycle (Hamiltonian) in a third of the candidates
        cuts = []
        if c % 3:
            k = 2 + next(g) % 3
            cuts = sorted(set(2 + next(g) % max(1, n - 3) for _ in range(k - 1)))
            cuts = [x for x in cuts if 2 <= x <= n - 2]
            cuts = [x for i, x in enumerate(cuts) if i == 0 or x - cuts[i - 1] >= 2]  # no loop i -> i: the domains exclude it
        succ = [0] * n
        start = 0
        for end in cuts + [n]:
            cyc = labels[start:end]
            for a, b in zip(cyc, cyc[1:] + cyc[:1]):
                succ[a] = b
            start = end
        if succ not in out:
            out.append(succ)
    return out


def interpreted_points(tier: str) -> List[dict]:
    """C16: the shipped models at their smallest sizes, run by the INTERPRETED engine (a bounds-checking executor for
    everything a model plugs into the engine: the Golomb consistency algorithm sizes its scratch arrays by a counting
    argument).  Only an index error is judged here; counts and validators are C20's business (compiled)."""
    th = tier == "thorough"
    P = []
    for n in (3, 4) + ((5,) if th else ()):
        for sym in (True, False):
            for op in ("opt", "find_all"):
                P.append({"spec": {"model": "golomb", "n": n, "sym": sym, "op": op, "cfg": {"golomb_alg": True}}, "fix_cons": True})
                P.append({"spec": {"model": "golomb", "n": n, "sym": sym, "op": op}})
    for n in (4, 5, 6):
        P.append({"spec": {"model": "queens", "n": n}})
    for n in (1, 2, 3, 4, 5, 7):
        P.append({"spec": {"model": "magic_sequence", "n": n}})
    for n in (2, 3):
        P.append({"spec": {"model": "latin", "n": n}})
        P.append({"spec": {"model": "latin_rc", "n": n}})
        P.append({"spec": {"model": "quasigroup", "n": n, "sym": bool(n % 2)}})
    P.append({"spec": {"model": "qg5", "n": 4, "sym": True}})
    P.append({"spec": {"model": "magic_square", "n": 3, "sym": True}})
    P.append({"spec": {"model": "magic_square", "n": 2, "sym": False}})
    for v, b, r, k, l in ((3, 3, 2, 2, 1), (2, 2, 1, 1, 0), (4, 6, 3, 2, 1)):
        P.append({"spec": {"model": "bibd", "v": v, "b": b, "r": r, "k": k, "l": l, "sym": v % 2 == 1}})
    for n in (1, 2, 4, 6):
        P.append({"spec": {"model": "schur", "n": n, "sym": n % 2 == 0}})
    P.append({"spec": {"model": "sports", "n": 2, "sym": False}})
    P.append({"spec": {"model": "sports", "n": 4, "sym": True, "limit": 1}})
    P.append({"spec": {"model": "knapsack", "weights": [3, 0, 5, 2], "volumes": [2, 4, 0, 3], "capacity": 5, "op": "opt"}})
    for n in (2, 3, 4, 5):
        P.append({"spec": {"model": "circuit", "n": n}})
    g = lcg(5)
    for n in (3, 4, 5):
        c = [[0 if a == b else next(g) % 7 for b in range(n)] for a in range(n)]
        P.append({"spec": {"model": "tsp", "costs": c, "op": "opt", "cfg": {"tsp_heuristics": False}}, "fix_heur": True})
        c = [[0 if a == b else 1 + next(g) % 7 for b in range(n)] for a in range(n)]
        P.append({"spec": {"model": "tsp", "costs": c, "op": "opt", "cfg": {"tsp_heuristics": True}}, "fix_heur": True})
    return P


ENUMERATED = True


def hard_point(spec: dict) -> bool:
    """Instances whose search explodes under an unlucky heuristic: only the number of simulated workers and the
    interleaving vary for them (the default heuristics of the shipped example are kept)."""
    m, n = spec["model"], spec.get("n", 0)
    return (
        (m == "golomb" and n >= 6) or (m == "magic_square" and n >= 4) or (m == "qg5" and n >= 7) or m == "alpha"
        or (m == "sports" and n >= 6) or (m == "bibd" and spec.get("v", 0) >= 6) or (m == "schur" and n >= 12)
        or (m == "magic_sequence" and n >= 20) or (m == "queens" and n >= 9) or (m == "knapsack" and len(spec.get("weights", [])) >= 15)
    )


CHUNK = 1
CHUNK_TIMEOUT = 6000


def n_runs(tier: str) -> int:
    return len(points(tier)) * (3 if tier == "quick" else 12)


def n_runs_interpreted(tier: str) -> int:
    return len(interpreted_points(tier)) * (3 if tier == "quick" else 10)


def prepare(params: dict):
    if params.get("interpreted"):
        return
    for spec in ({"model": "queens", "n": 4, "cfg": {"cons": 1, "dom_h": 3}}, {"model": "golomb", "n": 4, "op": "opt", "cfg": {"golomb_alg": True}},
                 {"model": "schur", "n": 4, "cfg": {"dom_h": 1, "var_h": 1}, "workers": 2}, {"model": "queens", "n": 4, "cfg": {"dom_h": 2, "var_h": 2}}):
        execute(spec)


def execute(spec: dict, compiled: bool = True) -> dict:
    try:
        r = subprocess.run([sys.executable, WORKER, repo_dir(), ROOT, json.dumps(spec)], env=worker_env(compiled),
                           capture_output=True, text=True, timeout=TIMEOUT)
    except subprocess.TimeoutExpired:
        return {"outcome": "timeout"}
    for l in reversed(r.stdout.splitlines()):
        try:
            return json.loads(l)
        except Exception:
            continue
    return {"outcome": "abort", "error": f"status {r.returncode}: {r.stderr[-300:]}"}


def run(ch: Choices, focus: str = "C20", params: Optional[dict] = None) -> dict:
    params = params or {}
    pts = interpreted_points(params.get("tier", "quick")) if params.get("interpreted") else points(params.get("tier", "quick"))
    idx = params.get("run_index")
    i = ch.fixed(len(pts), "point", idx % len(pts) if idx is not None else None)
    variant = ch.fixed(64, "variant", (idx // len(pts)) if idx is not None else None)
    pt = pts[i]
    spec = json.loads(json.dumps(pt["spec"]))
    cfg = dict(spec.get("cfg", {}))
    out = {"violations": [], "probes": Counter(), "faults": Counter(), "steps": 0, "nontrivial": True}
    V = out["violations"]

    def viol(oracle, msg):
        if not any(v["oracle"] == oracle for v in V):
            V.append({"property": focus, "oracle": oracle, "message": msg})

    if focus == "C13" and pt.get("program"):
        out["nontrivial"] = False  # a program is run as shipped: there is no model object to rewrite before it runs
        out["log_sha"] = sha([spec, "program point skipped under C13"])
        out["key"] = sha(spec)[:16]
        out["sample"] = {"spec": spec, "skipped": True}
        return out
    if focus == "C13":
        with ch.scope("rewrite"):
            spec["rewrite"] = {"seed": 1 + ch.choose(10000, "seed"), "shuffle": ch.chance(2, 3, "shuffle"),
                               "duplicate": ch.choose(3, "duplicate"), "always_true": ch.chance(1, 2, "always_true")}
            if not any(spec["rewrite"][k] for k in ("shuffle", "duplicate", "always_true")):
                spec["rewrite"]["shuffle"] = True
        out["probes"]["shipped_model_rewrites"] += 1

    hard = hard_point(spec)
    if variant > 0:
        with ch.scope("swarm"):
            if not pt.get("fix_cons") and not pt.get("slow") and not hard:
                cfg["cons"] = ch.choose(2, "cons")
            if not pt.get("fix_heur") and not hard:
                if not pt.get("fix_var_h"):
                    cfg["var_h"] = ch.choose(3, "var_h")
                cfg["dom_h"] = ch.choose(4, "dom_h")
            if spec["model"] not in ("tsp",) and not spec.get("limit") and not pt.get("program"):
                spec["workers"] = ch.choose(5, "workers")
                if spec["workers"]:
                    spec["split_var"] = ch.choose(3, "split_var")
                    spec["seed"] = 1 + ch.choose(1000, "mpseed")
    if pt.get("program"):
        spec["seed"] = 1 + variant  # the interleaving of the simulated processes when the program uses several
        out["probes"]["example_programs_run_as_shipped"] += 1
    spec["cfg"] = cfg
    if params.get("interpreted"):
        res = execute(spec, compiled=False)
        out["probes"]["shipped_models_run_interpreted"] += 1
        out["probes"]["model:" + spec["model"]] += 1
        if res.get("outcome") == "error" and str(res.get("error", "")).startswith("IndexError"):
            viol("index-error", f"[{ {k: v for k, v in spec.items() if k not in ('costs',)} }] interpreted: {res['error']} {res.get('tb', '')[-400:]}")
        elif res.get("outcome") not in ("ok", "error"):
            raise RuntimeError(f"interpreted model worker: {res}")
        out["log_sha"] = sha([spec, res.get("outcome"), res.get("count"), res.get("optimum"), str(res.get("error"))[:80]])
        out["key"] = sha(spec)[:16]
        out["sample"] = {"spec": {k: v for k, v in spec.items() if k not in ("costs",)}, "outcome": res.get("outcome"), "count": res.get("count")}
        return out
    res = execute(spec)
    ctx = f"[{ {k: v for k, v in spec.items() if k not in ('givens', 'costs', 'weights', 'volumes', 'fix_solution', 'fix_many')} }] "
    if pt.get("accepts"):
        out["probes"]["known_objects_offered"] += 1
        if res.get("rejected_by_domains"):
            viol("model-rejects-known-object", ctx + f"a known valid object is excluded by the model's domains: {res['rejected_by_domains']}")
    out["probes"]["model:" + spec["model"]] += 1
    out["probes"]["with_simulated_workers"] += 1 if spec.get("workers") else 0
    out["probes"]["symmetry_breaking_on" if spec.get("sym", True) else "symmetry_breaking_off"] += 1
    out["probes"]["shaving"] += 1 if cfg.get("cons") == 1 else 0
    if res.get("outcome") != "ok":
        viol("model-run-failed", ctx + f"{res.get('outcome')}: {res.get('error', '')} {res.get('tb', '')[-300:]}")
    else:
        out["probes"]["solutions_validated"] += res.get("count", 0) if spec.get("op", "find_all") == "find_all" else 1
        if res.get("invalid"):
            viol("invalid-object", ctx + f"solution {res['invalid']['solution']} is not a valid instance: {res['invalid']['why']}")
        if res.get("count") != res.get("distinct"):
            viol("duplicate-solution", ctx + f"{res['count']} solutions but only {res['distinct']} distinct")
        if pt.get("by_validator"):
            out["probes"]["candidates_judged_by_definition"] += len(spec.get("fix_many", []))
            if res.get("expected_by_validator") is None:
                viol("model-run-failed", ctx + "the candidates do not cover the variables of the model")
            elif res["count"] != res["expected_by_validator"]:
                viol("model-disagrees-with-definition", ctx + f"of {len(spec['fix_many'])} fully instantiated candidates the definition accepts {res['expected_by_validator']}, the model {res['count']}")
        if pt.get("min_count") is not None:
            out["probes"]["symmetry_orbits_offered"] += 1
            if res["count"] < pt["min_count"]:
                viol("symmetry-breaking-loses-every-image", ctx + f"of the {len(spec['fix_many'])} symmetric images of a valid object the symmetry-broken model accepts {res['count']}")
        want = pt.get("count")
        if want == "brute":
            want = res.get("brute")
        if pt.get("program"):
            kind = "optimisation" if pt.get("optimum") is not None else "enumeration"
            if res.get("mode") != kind:
                viol("program-does-not-do-what-it-says", ctx + f"the example program ran an {res.get('mode')}, the example is an {kind}")
            if kind == "optimisation" and res.get("objective_as_called") != res.get("objective_expected"):
                viol("program-optimises-the-wrong-variable", ctx + f"the example program called {res.get('objective_as_called')}, the objective of the model is {res.get('objective_expected')}")
            if "--processors" in spec["argv"]:
                k = int(spec["argv"][spec["argv"].index("--processors") + 1])
                out["probes"]["example_programs_with_processes"] += 1
                if k > 1 and not (1 <= res.get("processes_started", 0) <= k):
                    viol("program-processes", ctx + f"asked for {k} processors, {res.get('processes_started')} processes started")
        if want is not None and pt.get("first_only"):
            want = None
        if want is not None and spec.get("op", "find_all") == "find_all" and not spec.get("limit"):
            if res["count"] != want:
                viol("count-differs", ctx + f"{res['count']} solutions, known count is {want}")
        sat = pt.get("sat")
        if sat == "brute":
            sat = res.get("brute", 0) > 0
        if sat is not None and (res["count"] > 0) != bool(sat):
            viol("satisfiability-differs", ctx + f"{res['count']} solutions but the instance is {'satisfiable' if sat else 'unsatisfiable'}")
        if spec.get("sym", True) and pt.get("sat") == "brute" and res.get("brute") is not None and res["count"] > res["brute"]:
            viol("symmetry-breaking-adds-solutions", ctx + f"{res['count']} solutions with symmetry breaking, {res['brute']} without")
        opt = pt.get("optimum")
        if opt == "brute":
            opt = res.get("brute")
        if opt is not None and res.get("optimum") != opt:
            viol("optimum-differs", ctx + f"optimum {res.get('optimum')}, known optimum {opt}")
        if pt.get("superset_of") and variant == 0:
            sub = execute(pt["superset_of"])
            if sub.get("outcome") == "ok":
                a = set(map(tuple, res.get("solutions", [])))
                b = set(map(tuple, sub.get("solutions", [])))
                if not b <= a:
                    viol("symmetry-broken-not-subset", ctx + f"{len(b - a)} solutions of the symmetry-broken model are not solutions of the plain model")
                if bool(a) != bool(b):
                    viol("symmetry-breaking-changes-satisfiability", ctx + f"plain model has {len(a)} solutions, symmetry-broken {len(b)}")
                out["probes"]["symmetry_subset_checks"] += 1
        if res.get("stats") and spec.get("op", "find_all") == "find_all" and not spec.get("limit") and not pt.get("stats_printed_before_solving") \
                and pt.get("optimum") is None:
            if res["stats"].get("SOLVER_SOLUTION_NB") != res["count"]:
                viol("solution-counter", ctx + f"SOLVER_SOLUTION_NB={res['stats'].get('SOLVER_SOLUTION_NB')} but {res['count']} solutions delivered")
    out["result_count"] = res.get("count")
    out["log_sha"] = sha([spec, {k: res.get(k) for k in ("outcome", "count", "optimum", "invalid")}])
    out["key"] = sha(spec)[:16]
    out["sample"] = {"spec": {k: v for k, v in spec.items() if k not in ("givens", "costs", "weights", "volumes", "fix_solution", "fix_many")},
                     "count": res.get("count"), "optimum": res.get("optimum"), "delivery_order": res.get("delivery_order")}
    return out
