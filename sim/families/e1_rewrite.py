"""C13: meaning-preserving rewrites of generated models (permute constraints / variables / shared domains, post a
constraint twice, add an always-true constraint, replace shared domains + offsets by separate variables tied by
x - y = offset, translate a translation-invariant model).  Solution sets (after the inverse renaming / translation)
and optima must be equal.  These are metamorphic relations; the simulator supplies seeded generation, replay and
minimisation (said plainly in DESIGN.md 4/C13)."""
from __future__ import annotations

import os

import copy
from collections import Counter
from typing import Optional

from sim import gen, nucsio, seams
from sim import refmodel as R
from sim.families.e1_engine import SOLVER_BUDGET, classify_exception, step_budget, where_of
from sim.kernel import Choices, sha
from sim.steps import CLOCK, StepBudgetExceeded

TRANSLATABLE = {
    "alldifferent", "lexicographic_leq", "max_eq", "max_leq", "min_eq", "min_geq", "affine_eq", "affine_leq",
    "affine_geq", "exactly_eq", "gcc", "relation", "dummy",
}
KINDS = ["permute_props", "duplicate", "always_true", "permute_vars", "unshare", "translate", "permute_domains", "incremental", "views_api"]


def rewrite(ch: Choices, model: dict, kind: str):
    """Returns (new model, back) where back maps a solution of the new model to one of the original."""
    m = copy.deepcopy({k: model[k] for k in ("shr", "idx", "off", "props", "_incremental", "_views_api") if k in model})
    nv = len(m["idx"])
    ident = lambda s: tuple(s)
    if kind == "permute_props":
        m["props"] = ch.shuffle(m["props"], "perm")
        return m, ident
    if kind == "duplicate":
        if not m["props"]:
            return m, ident
        k = ch.choose(len(m["props"]), "which")
        m["props"].insert(ch.choose(len(m["props"]) + 1, "where"), copy.deepcopy(m["props"][k]))
        return m, ident
    if kind == "always_true":
        t = ch.choose(4, "type")
        vs = gen.pick_vars(ch, m, 1 + ch.choose(min(3, nv), "n"), False)
        if t == 0:
            c = [vs, "dummy", []]
        elif t == 1:
            hi = sum(gen.var_range(m, v)[1] for v in vs)
            c = [vs, "affine_leq", [1] * len(vs) + [hi + ch.choose(2, "slack")]]
        elif t == 2:
            lo = sum(gen.var_range(m, v)[0] for v in vs)
            c = [vs, "affine_geq", [1] * len(vs) + [lo - ch.choose(2, "slack")]]
        else:
            v = vs[0]
            c = [[v, v], "max_leq", []]  # x <= x
        m["props"].insert(ch.choose(len(m["props"]) + 1, "where"), c)
        return m, ident
    if kind == "incremental":
        n = len(m["shr"])
        if list(m["idx"]) != list(range(n)) or any(m["off"]):
            return None, None
        m["_incremental"] = 1 + ch.choose(n, "k")
        return m, ident
    if kind == "views_api":
        # the same model written through the API for views: the shared domains and the first variables go through
        # the constructor, every further variable is added by add_variable(placeholder, dom_index, dom_offset) (or
        # add_variables with explicit lists), which also appends an unused, instantiated placeholder domain
        n0 = len(m["shr"])
        if nv <= n0 or "_views_api" in m or "_incremental" in m:
            return None, None
        groups = []
        left = nv - n0
        while left:
            g = 1 + ch.choose(min(left, 3), f"g{len(groups)}")
            groups.append(g)
            left -= g
        for j in range(n0, nv):
            c = ch.choose(4, f"ph{j}") - 1
            m["shr"].append([c, c])
        m["_views_api"] = {"n0": n0, "groups": groups}
        return m, ident
    if kind == "permute_vars":
        if "_views_api" in m:
            return None, None
        perm = ch.shuffle(list(range(nv)), "perm")  # new position p holds old variable perm[p]
        pos = {old: p for p, old in enumerate(perm)}
        # the first len(shr) variables need not be the domain owners: nothing in NuCS requires it
        m["idx"] = [model["idx"][old] for old in perm]
        m["off"] = [model["off"][old] for old in perm]
        m["props"] = [[[pos[v] for v in vs], alg, list(p)] for vs, alg, p in model["props"]]
        m["_fwd"] = dict(pos)
        return m, (lambda s: tuple(s[pos[old]] for old in range(nv)))
    if kind == "permute_domains":
        if "_views_api" in m:
            return None, None
        nd = len(m["shr"])
        perm = ch.shuffle(list(range(nd)), "perm")  # new domain j is old domain perm[j]
        newidx = {old: j for j, old in enumerate(perm)}
        m["shr"] = [list(model["shr"][old]) for old in perm]
        m["idx"] = [newidx[d] for d in model["idx"]]
        return m, ident
    if kind == "unshare":
        if "_views_api" in m:
            return None, None
        owners = {}
        for v in range(nv):
            d = m["idx"][v]
            if d not in owners:
                owners[d] = v
                continue
            b = owners[d]
            lo, hi = model["shr"][d]
            m["shr"].append([lo + model["off"][v], hi + model["off"][v]])
            m["idx"][v] = len(m["shr"]) - 1
            m["off"][v] = 0
            # v - b = off_v - off_b
            m["props"].append([[v, b], "affine_eq", [1, -1, model["off"][v] - model["off"][b]]])
        return m, ident
    if kind == "translate":
        if any(p[1] not in TRANSLATABLE for p in m["props"]):
            return None, None
        t = [1, -1, 2, -3, 5][ch.choose(5, "t")]
        m["shr"] = [[lo + t, hi + t] for lo, hi in m["shr"]]
        props = []
        for vs, alg, p in m["props"]:
            p = list(p)
            if alg.startswith("affine_"):
                p[-1] = p[-1] + t * sum(p[:-1])
            elif alg == "exactly_eq":
                p[0] += t
            elif alg == "gcc":
                p[0] += t
            elif alg == "relation":
                p = [x + t for x in p]
            props.append([vs, alg, p])
        m["props"] = props
        return m, (lambda s: tuple(x - t for x in s))
    raise ValueError(kind)


def solve(model, cfg, mode, viol, ctx):
    CLOCK.set_budget(step_budget(model, cfg))
    try:
        problem = nucsio.build_problem(model)
        solver = nucsio.build_solver(problem, cfg)  # a model that respects the contracts must be accepted
        if mode[0] == "find_all":
            return sorted(tuple(int(x) for x in s) for s in solver.solve())
        r = solver.minimize(mode[1]) if mode[0] == "minimize" else solver.maximize(mode[1])
        return None if r is None else tuple(int(x) for x in r)
    except StepBudgetExceeded as e:
        viol("C04", "step-budget", ctx + f"exceeded the step budget in {e}")
        return "crash"
    except Exception as e:
        if classify_exception(e) == "harness":
            raise
        viol("C13", "crash", ctx + f"raised {type(e).__name__}: {e} at {where_of(e)}")
        return "crash"
    finally:
        CLOCK.clear_budget()


def run(ch: Choices, focus: str = "C13", params: Optional[dict] = None) -> dict:
    # the allocator's contents are one more seeded choice of the run (seams.dirty_allocator)
    if os.environ.get("NUMBA_DISABLE_JIT"):
        pat = seams.draw_pattern(ch)
        with seams.dirty_allocator(pat):
            out = _run(ch, focus, params)
        if pat is not None:
            out["faults"]["dirty-allocator"] += 1
        return out
    return _run(ch, focus, params)


def _run(ch: Choices, focus: str = "C13", params: Optional[dict] = None) -> dict:
    params = params or {}
    known = params.get("known", {})
    seams.install()
    CLOCK.install()
    out = {"violations": [], "probes": Counter(), "faults": Counter(), "steps": 0, "nontrivial": False}
    V = out["violations"]

    def viol(prop, oracle, msg):
        if not any(v["property"] == prop and v["oracle"] == oracle for v in V):
            V.append({"property": prop, "oracle": oracle, "message": msg})

    opts = {"gcc_zero_cap": not known.get("gcc_zero_cap_excluded", False)}
    if ch.chance(1, 3, "translatable_only"):
        opts["types"] = sorted(TRANSLATABLE - {"gcc"}) + (["gcc"] if True else [])
        opts["flavour_weights"] = [1, 0, 0]
    model = gen.gen_model(ch, opts)
    out["model"] = gen.render_model(model)
    out["model_dict"] = {k: model[k] for k in ("shr", "idx", "off", "props")}
    c0 = CLOCK.count
    nrw = 1 + ch.choose(2, "nrewrites")
    cur = model
    backs = []
    fwds = []
    kinds = []
    for i in range(nrw):
        with ch.scope(f"r{i}"):
            kind = KINDS[ch.choose(len(KINDS), "kind")]
            new, back = rewrite(ch, cur, kind)
        if new is None:
            continue
        if R.space_size(new["shr"]) > 20000:
            continue
        kinds.append(kind)
        backs.append(back)
        fwds.append(new.pop("_fwd", {}))
        cur = new
    rewritten = cur
    out["probes"].update({"rewrite:" + k: 1 for k in kinds})

    def back_all(s):
        for b in reversed(backs):
            s = b(s)
        return tuple(s)

    with ch.scope("cfgA"):
        cfgA = gen.gen_config(ch, model) if ch.chance(1, 2, "random") else dict(gen.DEFAULT_CONFIG)
    with ch.scope("cfgB"):
        cfgB = gen.gen_config(ch, rewritten) if ch.chance(1, 2, "random") else dict(gen.DEFAULT_CONFIG)
    nvar = len(model["idx"])
    mk = ch.weighted([3, 1, 1], "mode")
    obj = ch.choose(nvar, "objective")
    ctx = f"[{out['model']} --{kinds}--> {gen.render_model(rewritten)}] "
    if mk == 0:
        a = solve(model, cfgA, ["find_all"], viol, ctx + "original: ")
        b = solve(rewritten, cfgB, ["find_all"], viol, ctx + "rewritten: ")
        if a != "crash" and b != "crash":
            bb = sorted(back_all(s) for s in b)
            if a != bb:
                viol("C13", "solution-sets-differ", ctx + f"original has {len(a)} solutions, rewritten {len(bb)} (after inverse renaming); only original {[s for s in a if s not in bb][:3]} only rewritten {[s for s in bb if s not in a][:3]}")
            ref = sorted(R.solutions(model))
            if a != ref and bb == ref:
                viol("C13", "original-differs-from-reference", ctx + f"original formulation yields {len(a)} solutions, reference {len(ref)}")
    else:
        mode = ["minimize" if mk == 1 else "maximize", obj]
        a = solve(model, cfgA, mode, viol, ctx + "original: ")
        objB = obj
        for f in fwds:
            objB = f.get(objB, objB)
        b = solve(rewritten, cfgB, [mode[0], objB], viol, ctx + "rewritten: ")
        if a != "crash" and b != "crash":
            if (a is None) != (b is None):
                viol("C13", "feasibility-differs", ctx + f"{mode}: original returns {a}, rewritten {b}")
            elif a is not None and a[obj] != back_all(b)[obj]:
                viol("C13", "optimum-differs", ctx + f"{mode}: original optimum {a[obj]}, rewritten {back_all(b)[obj]}")
        out["probes"]["optimisations"] += 1
    out["steps"] = CLOCK.count - c0
    out["log_sha"] = sha([out["model"], kinds, gen.render_model(rewritten), [str(v) for v in V]])
    out["key"] = sha([out["model"], kinds])[:16]
    out["nontrivial"] = bool(kinds) and R.space_size(model["shr"]) >= 2 and len(model["props"]) >= 1
    out["sample"] = {"model": out["model"], "rewrites": kinds, "rewritten": gen.render_model(rewritten)}
    return out
