"""E1 engine-sim: generated model x configuration x posting order x wake-order schedule through the real
BacktrackSolver (interpreted), all monitors attached.  Serves C01 C02 C03 C04 C07 C08 C10 C13 C16 C17."""
from __future__ import annotations

import json
import os

import traceback
from collections import Counter
from typing import List, Optional

import numpy as np

from sim import gen, nucsio, seams
from sim import refmodel as R
from sim.kernel import Choices, sha
from sim.monitors import EngineListener
from sim.steps import CLOCK, StepBudgetExceeded

BUDGET_CAP = 150_000_000
SOLVER_BUDGET = 1_500_000  # backward jumps per solver call (terminating runs of scope S use < 50k)

STAT_KEYS = [
    "ALG_BC_NB", "ALG_BC_WITH_SHAVING_NB", "ALG_SHAVING_NB", "ALG_SHAVING_CHANGE_NB", "ALG_SHAVING_NO_CHANGE_NB",
    "PROPAGATOR_ENTAILMENT_NB", "PROPAGATOR_FILTER_NB", "PROPAGATOR_FILTER_NO_CHANGE_NB",
    "PROPAGATOR_INCONSISTENCY_NB", "SOLVER_BACKTRACK_NB", "SOLVER_CHOICE_NB", "SOLVER_CHOICE_DEPTH",
    "SOLVER_SOLUTION_NB",
]


class HarnessError(Exception):
    pass


def classify_exception(e: BaseException) -> str:
    """'nucs' if the innermost Python frame is NuCS code, 'harness' otherwise."""
    tb = traceback.extract_tb(e.__traceback__)
    if not tb:
        return "harness"
    fn = tb[-1].filename
    if "/nucs/" in fn and "/verif/" not in fn:
        return "nucs"
    # numpy internals raised from a nucs frame
    for fr in reversed(tb):
        if "/site-packages/" in fr.filename:
            continue
        return "nucs" if ("/nucs/" in fr.filename and "/verif/" not in fr.filename) else "harness"
    return "harness"


def where_of(e: BaseException) -> str:
    tb = traceback.extract_tb(e.__traceback__)
    for fr in reversed(tb):
        if "/nucs/" in fr.filename:
            return f"{fr.filename.split('/nucs/')[-1]}:{fr.lineno} in {fr.name}"
    return "?"


def focus_opts(focus: str, ch: Choices, known: dict, params: dict) -> dict:
    o = {"gcc_zero_cap": not known.get("gcc_zero_cap_excluded", False)}
    if focus == "C10":
        o["force_cons"] = 1
    if focus in ("C01", "C02", "C03", "C08", "C17", "C10", "C07"):
        o["custom_checker"] = True  # a user-registered constraint woken by instantiations only
    if focus in ("C01", "C02", "C03", "C09", "C16", "C17", "C08", "C04", "C07", "C10"):
        o["pad_chance"] = 30  # one run in 30: all real indices beyond 254..300 instantiated padding domains
    if params.get("types"):
        o["types"] = params["types"].split(",") if isinstance(params["types"], str) else list(params["types"])
        o["flavour_weights"] = [1, 0, 0]
    if params.get("allow_known"):
        o["gcc_zero_cap"] = True
    if focus == "C07" and not params.get("types") and ch.chance(2, 3, "c07.bias"):
        # the constraint types that can answer 'entailed', with room for long constraints
        o["types"] = sorted(R.CAN_ENTAIL) + ["alldifferent", "affine_eq"]
        o["flavour_weights"] = [6, 1, 0]
        o["max_vars"] = 8
        o["max_extra"] = 5
        o["max_arity"] = 6
    if focus == "C04" and not params.get("types") and ch.chance(1, 3, "c04.bias"):
        # the constraints whose filtering walks pointer structures (Hall intervals, critical capacities): where a pass
        # can fail to terminate inside one execution
        o["types"] = ["gcc", "gcc", "alldifferent", "gcc", "count_eq", "lexicographic_leq"]
        o["flavour_weights"] = [1, 0, 0]
    if focus in ("C01", "C02", "C03", "C08", "C17", "C04") and not params.get("types") and ch.chance(1, 4, "long"):
        o["max_vars"] = 8
        o["max_extra"] = 5
        o["max_arity"] = 6
    if focus == "C16":
        o["max_arity"] = 6
        o["max_vars"] = 8
        if ch.chance(1, 3, "c16.wide"):
            # what the scratch arrays are sized from: many variables per alldifferent / gcc, many values
            o["max_arity"] = 12
            o["max_vars"] = 12
            o["max_extra"] = 9
            o["max_shr"] = 8
            o["max_space"] = 20000
            o["types"] = ["alldifferent", "gcc", "alldifferent", "gcc", "element_liv", "element_lic", "relation", "count_eq", "lexicographic_leq"]
            o["flavour_weights"] = [6, 0, 2]
    return o


def run(ch: Choices, focus: str = "C01", params: Optional[dict] = None) -> dict:
    params = params or {}
    if params.get("explicit"):
        return run_explicit(ch, focus, params["explicit"])
    known = params.get("known", {})
    seams.install()
    CLOCK.install()
    if focus == "C15":
        return run_c15(ch, params, known)
    out = {"violations": [], "probes": Counter(), "faults": Counter(), "steps": 0, "nontrivial": False}
    opts = focus_opts(focus, ch, known, params)
    model = gen.gen_model(ch, opts)
    if focus in ("C01", "C02", "C03", "C08", "C16", "C17"):
        model = gen.magnify(ch, model, out["probes"])
    out["model"] = gen.render_model(model)
    out["model_dict"] = {k: model[k] for k in ("shr", "idx", "off", "props")}
    space = R.space_size(model["shr"])
    ref = sorted(R.solutions(model))
    out["ref_solutions"] = len(ref)
    nconf = 1 + ch.choose(params.get("max_conf", 3), "nconf")
    configs = []
    h = []
    for ci in range(nconf):
        with ch.scope(f"k{ci}"):
            if ci == 0 and not ch.chance(1, 2, "cfg0.random"):
                cfg = dict(gen.DEFAULT_CONFIG)
                if opts.get("force_cons") is not None:
                    cfg["cons"] = opts["force_cons"]
            else:
                cfg = gen.gen_config(ch, model)
                if opts.get("force_cons") is not None and ch.chance(3, 4, "cfg.forcecons"):
                    cfg["cons"] = opts["force_cons"]
            if ch.chance(1, 2, "permute"):
                pm, order = gen.permute_props(ch, model)
            else:
                pm, order = model, list(range(len(model["props"])))
            mode = pick_mode(ch, focus, model)
            policy = pick_policy(ch, focus)
            pat = seams.draw_pattern(ch)
            with seams.dirty_allocator(pat):
                res = run_one(ch, focus, pm, cfg, mode, policy, ref, out)
            if pat is not None:
                out["faults"]["dirty-allocator"] += 1
            if focus == "C10" and cfg["cons"] == 1 and mode[0] != "partial" and not out.get("_last", {}).get("crashed"):
                # last clause of C10: the same solver with plain bound consistency instead of shaving (same
                # heuristics, same call) must enumerate the same solutions / reach the same optimum
                a = out.pop("_last")
                scratch = {"violations": [], "probes": Counter(), "faults": Counter(), "steps": 0}
                with ch.scope("bc"):
                    run_one(ch, "C10", pm, dict(cfg, cons=0), mode, "native", ref, scratch)
                b = scratch.pop("_last", {})
                out["steps"] += scratch["steps"]
                out["probes"]["shaving_solver_vs_bc_solver"] += 1
                if not b.get("crashed") and not any(v["property"] in ("C01", "C02", "C03") for v in scratch["violations"]):
                    cx = f"[{gen.render_model(pm)} var_h={cfg['var_h']} dom_h={cfg['dom_h']} {mode}] "
                    if mode[0] == "find_all" and sorted(a["sols"]) != sorted(b["sols"]):
                        sa, sb = sorted(a["sols"]), sorted(b["sols"])
                        out["violations"].append({"property": "C10", "oracle": "shaving-solver-differs-from-bc-solver", "message": cx + f"with shaving {len(sa)} solutions, with plain bound consistency {len(sb)}; only with shaving {[x for x in sa if x not in sb][:3]}, only with bound consistency {[x for x in sb if x not in sa][:3]}"})
                    elif mode[0] != "find_all":
                        va = None if a["result"] is None else a["result"][mode[1]]
                        vb = None if b["result"] is None else b["result"][mode[1]]
                        if va != vb:
                            out["violations"].append({"property": "C10", "oracle": "shaving-optimum-differs-from-bc-optimum", "message": cx + f"optimum with shaving {va}, with plain bound consistency {vb}"})
        configs.append({"cfg": [cfg["cons"], cfg["var_h"], cfg["dom_h"]], "decision": cfg.get("decision"), "order": order, "mode": mode, "policy": policy,
                        "alloc": pat if not isinstance(pat, tuple) else list(pat)})
        h.append(res)
        if out["violations"]:
            break
    out.pop("_last", None)
    out["configs"] = configs
    out["log_sha"] = sha(h)
    out["key"] = sha([out["model"], configs])[:16]
    out["nontrivial"] = space >= 2 and len(model["props"]) >= 1 and out["probes"]["executions"] > 0
    out["sample"] = {"model": out["model"], "configs": configs, "ref_solutions": len(ref)}
    return out


def run_explicit(ch: Choices, focus: str, explicit: dict) -> dict:
    """A pinned scenario written out in full (model, configurations): independent of the generator, used for the
    witnesses of recorded findings and for regression replays of repaired defects."""
    seams.install()
    CLOCK.install()
    out = {"violations": [], "probes": Counter(), "faults": Counter(), "steps": 0, "nontrivial": True}
    model = explicit["model"]
    out["model"] = gen.render_model(model)
    out["model_dict"] = {k: model[k] for k in ("shr", "idx", "off", "props")}
    ref = sorted(R.solutions(model))
    h = []
    for c in explicit["configs"]:
        cfg = {"cons": c["cfg"][0], "var_h": c["cfg"][1], "dom_h": c["cfg"][2], "var_params": c.get("var_params", [[]]),
               "dom_params": c.get("dom_params", [[]])}
        pm = dict(model, props=[model["props"][i] for i in c.get("order", range(len(model["props"])))])
        h.append(run_one(ch, focus, pm, cfg, c["mode"], c.get("policy", "native"), ref, out))
    out["log_sha"] = sha(h)
    out["key"] = sha([out["model"], explicit["configs"]])[:16]
    out["sample"] = {"model": out["model"], "configs": explicit["configs"], "ref_solutions": len(ref)}
    return out


def step_budget(model: dict, cfg: dict) -> int:
    """Simulated steps allowed to one solver call: a function of the problem size, as C04 states the bound.  A search
    visits at most 2 x |space| nodes; a node costs one pass (under shaving up to 2 probes per shared domain and round) of
    constraint executions whose loops run over their variables and parameters, plus heuristic loops over all shared
    domains.  Calibrated on 120 000 terminating calls of the unchanged tree: largest observed
    (steps - 3000) / (space x W x (1 + domains if shaving)) = 17.5 with W = domains + sum(arity + parameters + 4); the
    budget allows 200.  Never below SOLVER_BUDGET; the cap keeps a livelock in a large model detectable in minutes."""
    nd = len(model["shr"])
    w = nd + sum(len(vs) + len(prm) + 4 for vs, _, prm in model["props"])
    f = R.space_size(model["shr"]) * w * (1 + (nd if cfg.get("cons") else 0))
    return max(SOLVER_BUDGET, min(BUDGET_CAP, 20_000 + 200 * f))


def run_c15(ch: Choices, params: dict, known: dict) -> dict:
    """In-process part of C15: the same problem with the same configuration is solved twice in this interpreter.  The
    two executions draw the same simulator choices (same sub-seed) and differ in what a correct solver cannot see: the
    contents of never-written memory handed out by the allocator, what else was solved or abandoned in between, and
    whether the problem object is fresh or was already used by the first solver.  Solutions (in order), the returned
    optimum, the 13 statistics and the recorded event log must be identical."""
    out = {"violations": [], "probes": Counter(), "faults": Counter(), "steps": 0, "nontrivial": False}
    V = out["violations"]
    opts = focus_opts("C15", ch, known, params)
    model = gen.magnify(ch, gen.gen_model(ch, opts), out["probes"])
    out["model"] = gen.render_model(model)
    out["model_dict"] = {k: model[k] for k in ("shr", "idx", "off", "props")}
    ref = sorted(R.solutions(model))
    cfg = gen.gen_config(ch, model) if ch.chance(2, 3, "cfg.random") else dict(gen.DEFAULT_CONFIG)
    mode = pick_mode(ch, "C17", model)
    sub = ch.choose(1 << 30, "sub")
    pats = [0x00, 0xFF, 0xA5, 0x01, 0x80, ("random", ch.choose(1 << 16, "alloc.seed"))]
    ia = ch.choose(len(pats), "allocA")
    ib = (ia + 1 + ch.choose(len(pats) - 1, "allocB")) % len(pats)
    between = ch.choose(3, "between")  # 0 nothing, 1 another problem solved, 2 another problem left half enumerated
    reuse = ch.chance(1, 2, "reuse_problem")
    staged = (not reuse) and len(model["props"]) >= 1 and ch.chance(1, 2, "staged")
    with seams.dirty_allocator(pats[ia]):
        run_one(Choices(seed=sub), "C15", model, cfg, mode, "native", ref, out)
    a = out.pop("_last")
    keep = []
    if between and not V:
        with ch.scope("other"), seams.dirty_allocator(pats[ch.choose(len(pats), "alloc")]):
            other = gen.gen_model(ch, opts)
            ocfg = gen.gen_config(ch, other)
            oref = sorted(R.solutions(other))
            scratch = {"violations": [], "probes": Counter(), "faults": Counter(), "steps": 0}
            run_one(ch, "C15", other, ocfg, ["partial", 1] if between == 2 else ["find_all"], "native", oref, scratch)
            keep.append(scratch.pop("_last", None))  # the abandoned solver's problem stays alive
            out["probes"]["other_problem_in_between"] += 1
    if not V:
        with seams.dirty_allocator(pats[ib]):
            pb = a["problem"] if reuse else None
            if staged:
                # the problem object met a solver before it was complete: variables and the first j constraints
                # (possibly none), a solver constructed on it (and possibly asked for a solution), then the other
                # constraints are posted - "constructing a solver does not change the meaning of the problem object"
                j = ch.choose(len(model["props"]), "staged.j")
                pb = nucsio.build_problem(dict(model, props=model["props"][:j]))
                try:
                    s0 = nucsio.build_solver(pb, gen.DEFAULT_CONFIG if ch.chance(1, 2, "staged.default") else cfg)
                    if ch.chance(1, 2, "staged.run"):
                        next(s0.solve(), None)
                except Exception as e:
                    if classify_exception(e) == "harness":
                        raise
                for vs, alg, prm in model["props"][j:]:
                    pb.add_propagator((list(vs), nucsio.ALG_INDEX[alg], list(prm)))
                out["probes"]["problem_completed_after_a_first_solver"] += 1
                out["probes"]["first_solver_on_a_problem_without_constraints"] += 1 if j == 0 else 0
            cfg_b = cfg
            if (cfg["var_params"] != [[]] or cfg["dom_params"] != [[]]) and ch.chance(1, 2, "caller_buffer"):
                # same configuration, but the cost tables arrive in the caller's own int64 array, which the caller
                # refills with other values as soon as the solver is built (nucsio.build_solver)
                cfg_b = dict(cfg, caller_buffer=True)
                out["probes"]["cost_tables_in_a_caller_owned_array_refilled_after_construction"] += 1
            run_one(Choices(seed=sub), "C15", model, cfg_b, mode, "native", ref, out, problem=pb)
        b = out.pop("_last")
        out["faults"]["dirty-allocator"] += 2
        if reuse:
            out["probes"]["problem_object_reused"] += 1
        ctx = (f"[{out['model']} cfg={gen.cfg_str(cfg)} {mode}] solved twice in one interpreter "
               f"(never-written memory {pats[ia]} then {pats[ib]}, in between: {['nothing', 'another problem solved', 'another problem left half enumerated'][between]}, "
               f"problem object {'reused' if reuse else ('completed after a first solver had been constructed on it' if staged else 'rebuilt')}): ")
        for what in ("sols", "result", "stats", "crashed"):
            if a.get(what) != b.get(what):
                if what == "stats" and a.get("stats") and b.get("stats"):
                    d = {k: (a["stats"][k], b["stats"][k]) for k in a["stats"] if a["stats"][k] != b["stats"].get(k)}
                    msg = f"statistics differ (first, second): {d}"
                else:
                    msg = f"{what} differ: first {str(a.get(what))[:200]} second {str(b.get(what))[:200]}"
                V.append({"property": "C15", "oracle": "second-run-differs-" + what, "message": ctx + msg})
                break
        else:
            if a.get("digest") != b.get("digest"):
                V.append({"property": "C15", "oracle": "second-run-differs-event-log", "message": ctx + "same solutions and statistics but a different sequence of constraint executions, branches and backtracks"})
    out.pop("_last", None)
    out["log_sha"] = sha([out["model"], cfg, mode, a.get("digest")])
    out["key"] = sha([out["model"], [cfg["cons"], cfg["var_h"], cfg["dom_h"]], mode])[:16]
    out["nontrivial"] = R.space_size(model["shr"]) >= 2 and len(model["props"]) >= 1 and out["probes"]["executions"] > 0
    out["sample"] = {"model": out["model"], "config": [cfg["cons"], cfg["var_h"], cfg["dom_h"]], "mode": mode,
                     "between": between, "problem_object_reused": reuse}
    return out


def pick_mode(ch: Choices, focus: str, model: dict):
    nv = len(model["idx"])
    if focus == "C03":
        w = [1, 4, 4, 0]
    elif focus in ("C02", "C10", "C08", "C07"):
        w = [6, 1, 1, 1]
    elif focus == "C17":
        w = [4, 2, 2, 3]
    else:
        w = [4, 2, 2, 1]
    k = ch.weighted(w, "mode")
    if k == 0:
        return ["find_all"]
    if k == 1:
        return ["minimize", ch.choose(nv, "objective")]
    if k == 2:
        return ["maximize", ch.choose(nv, "objective")]
    return ["partial", 1 + ch.choose(3, "partial.j")]


def pick_policy(ch: Choices, focus: str) -> str:
    if focus != "C08":
        return "native"
    return ["native", "random", "random", "reverse", "starve"][ch.choose(5, "policy")] if True else "native"


def run_one(ch, focus, model, cfg, mode, policy, ref, out, problem=None) -> str:
    """One solver call with all monitors.  Appends violations to out, returns the event-log hash."""
    V = out["violations"]

    def viol(prop, oracle, msg):
        if not any(v["property"] == prop and v["oracle"] == oracle for v in V):
            V.append({"property": prop, "oracle": oracle, "message": msg})

    if problem is None:
        problem = nucsio.build_problem(model)
    out["_last"] = {"problem": problem}
    try:
        solver = nucsio.build_solver(problem, cfg)
    except Exception as e:  # construction of an in-contract problem must not fail
        if classify_exception(e) == "harness":
            raise
        viol("C16", "constructor-crash", f"BacktrackSolver() raised {type(e).__name__}: {e} at {where_of(e)}")
        return "ctor"
    em = nucsio.engine_model(model, problem)
    L = EngineListener(em, solver, ch, policy)
    L.gfp_compare = focus == "C08"
    sols: List[tuple] = []
    result = None
    crashed = None
    c0 = CLOCK.count
    # the budget is a function of the problem size (C04): the loops of the heuristics and of shaving run over all shared
    # domains, so hundreds of instantiated padding domains multiply the steps of every choice without changing the search
    budget = step_budget(model, cfg)
    CLOCK.set_budget(budget)
    prop_of_mode = "C03" if mode[0] in ("minimize", "maximize") else "C02"
    try:
        with seams.attach(L):
            if mode[0] == "find_all":
                api = ch.choose(3, "api")  # the three public ways to enumerate
                if api == 1:
                    sols.extend(tuple(int(x) for x in s) for s in solver.find_all())
                elif api == 2:
                    solver.solve_all(lambda s: sols.append(tuple(int(x) for x in s)))
                else:
                    for s in solver.solve():
                        sols.append(tuple(int(x) for x in s))
                        if len(sols) > 3 * len(ref) + 50:
                            break
            elif mode[0] == "partial":
                it = solver.solve()
                for _ in range(mode[1]):
                    s = next(it, None)
                    if s is None:
                        break
                    sols.append(tuple(int(x) for x in s))
            elif mode[0] == "minimize":
                result = solver.minimize(mode[1])
            else:
                result = solver.maximize(mode[1])
    except StepBudgetExceeded as e:
        crashed = "budget"
        viol(
            "C04",
            "step-budget",
            f"{mode} with config {gen.cfg_str(cfg)} exceeded {budget} simulated steps in "
            f"{e} after {L.c['exec']} constraint executions, {L.c['bc']} passes, {L.c['choice']} choices",
        )
        if prop_of_mode == "C03":
            viol("C03", "does-not-terminate", f"{mode} did not terminate within {budget} simulated steps ({e})")
    except Exception as e:
        if classify_exception(e) == "harness":
            raise
        crashed = "exception"
        msg = f"{mode} with config {gen.cfg_str(cfg)} raised {type(e).__name__}: {e} at {where_of(e)}"
        if isinstance(e, IndexError):
            viol("C16", "index-error", msg)
        viol(prop_of_mode, "crash", msg)
    finally:
        CLOCK.clear_budget()
    used = CLOCK.count - c0
    out["steps"] += used
    if os.environ.get("VERIF_BUDGET_TRACE"):  # developer aid: calibration of the step budget
        with open(os.environ["VERIF_BUDGET_TRACE"], "a") as fh:
            fh.write(json.dumps([used, len(model["shr"]), R.space_size(model["shr"]), [[len(p[0]), p[1], len(p[2])] for p in model["props"]],
                                 cfg["cons"], mode[0], len(ref), L.c["exec"], L.c["bc"], L.c["choice"]]) + "\n")
    out["probes"]["executions"] += L.c["exec"]
    out["probes"]["passes"] += L.c["bc"]
    out["probes"]["choices"] += L.c["choice"]
    out["probes"]["backtracks"] += L.c["bt_solver"]
    out["probes"]["max_budget_ratio_ppm"] = max(out["probes"]["max_budget_ratio_ppm"], int(1e6 * used / budget))
    out["probes"]["max_pass_ratio_pct"] = max(out["probes"]["max_pass_ratio_pct"], int(100 * L.max_ratio))
    out["probes"]["distinct_wake_orders"] += len(L.order_hashes)
    out["probes"]["fixpoint_states"] += len(L.fix_states)
    out["probes"]["disabled_constraints_judged"] += L.disabled_checked
    for k, v in L.probes.items():
        out["probes"][k] += v
    for v in L.violations:
        viol(v["property"], v["oracle"], f"[{gen.render_model(em)} cfg={gen.cfg_str(cfg)} {mode}] " + v["message"])
    ctx = f"[{gen.render_model(model)} cfg={gen.cfg_str(cfg)} {mode}] "
    # ---------------------------------------------------------------------------------------------- C01
    vidx = None
    if result is not None:
        sols_to_check = [tuple(int(x) for x in result)]
    else:
        sols_to_check = sols
    for s in sols_to_check:
        msg = R.check_solution(model, s)
        if msg:
            viol("C01", "solution-violates", ctx + f"reported {list(s)}: {msg}")
            break
    # ---------------------------------------------------------------------------------------------- C02
    if crashed is None and mode[0] == "find_all":
        if sorted(sols) != ref:
            missing = [s for s in ref if s not in sols]
            extra = [s for s in sols if s not in ref]
            dup = [s for s in set(sols) if sols.count(s) > 1]
            viol(
                "C02",
                "multiset-differs",
                ctx + f"enumerated {len(sols)} solutions, reference has {len(ref)}; missing {missing[:3]} extra "
                f"{extra[:3]} duplicated {dup[:3]}",
            )
    if crashed is None and mode[0] == "partial":
        # an assignment of the variables is delivered once per assignment of the shared domains that gives it (a shared
        # domain that no variable refers to multiplies it): more copies than the reference has is a duplicate
        over = [s for s in set(sols) if sols.count(s) > ref.count(s) and s in ref]
        if over:
            viol("C02", "duplicate-in-partial", ctx + f"first {len(sols)} solutions contain {over[0]} {sols.count(over[0])} times, the reference has it {ref.count(over[0])} time(s): {sols}")
        if len(sols) < min(mode[1], len(ref)):
            viol("C02", "partial-too-few", ctx + f"asked for {mode[1]} solutions, got {len(sols)}, reference has {len(ref)}")
        if any(s not in ref for s in sols):
            pass  # reported under C01
    # ---------------------------------------------------------------------------------------------- C03
    if crashed is None and mode[0] in ("minimize", "maximize"):
        v = mode[1]
        if not ref:
            if result is not None:
                viol("C03", "result-on-infeasible", ctx + f"returned {list(map(int, result))} but the problem is infeasible")
        else:
            best = min(s[v] for s in ref) if mode[0] == "minimize" else max(s[v] for s in ref)
            if result is None:
                viol("C03", "none-on-feasible", ctx + f"returned None but the reference optimum is {best}")
            elif tuple(int(x) for x in result) not in ref:
                viol("C03", "infeasible-result", ctx + f"returned {list(map(int, result))} which is not a solution")
            elif int(result[v]) != best:
                viol("C03", "not-optimal", ctx + f"returned value {int(result[v])} for variable {v}, optimum is {best}")
        out["probes"]["optimisations"] += 1
        if not ref:
            out["probes"]["optimisations_infeasible"] += 1
    # ---------------------------------------------------------------------------------------------- C17
    if crashed is None:
        check_stats(solver, L, cfg, mode, len(sols) if result is None else None, viol, ctx)
    out["_last"].update(
        sols=list(sols), result=None if result is None else [int(x) for x in result], crashed=crashed,
        stats=None if crashed else {k: int(v) for k, v in solver.get_statistics().items()}, digest=L.h.hexdigest(),
    )
    return L.h.hexdigest()


def check_stats(solver, L, cfg, mode, delivered, viol, ctx):
    st = solver.get_statistics()
    c = L.c
    got = {k: st[k] for k in STAT_KEYS}
    again = solver.get_statistics()
    if {k: again[k] for k in STAT_KEYS} != got:
        viol("C17", "statistics-query-not-idempotent", ctx + f"two consecutive get_statistics() after the same run: {got} then {dict(again)}")

    def expect(key, allowed, what):
        if got[key] not in allowed:
            viol(
                "C17",
                "counter-" + key,
                ctx + f"{key} = {got[key]} but {what} = {sorted(allowed)} (all counters {got}; events {dict(c)})",
            )

    expect("ALG_BC_NB", {c["bc"]}, "calls of bound consistency")
    expect("ALG_BC_WITH_SHAVING_NB", {c["sh"]}, "calls of the shaving algorithm")
    expect("ALG_SHAVING_NB", {c["shave"]}, "shaving attempts")
    expect("ALG_SHAVING_CHANGE_NB", {c["shave_ok"]}, "successful shaving attempts")
    expect("ALG_SHAVING_NO_CHANGE_NB", {c["shave_no"]}, "failed shaving attempts")
    expect("PROPAGATOR_FILTER_NB", {c["exec"]}, "constraint executions")
    expect("PROPAGATOR_ENTAILMENT_NB", {c["entail"]}, "executions answering entailed")
    expect("SOLVER_CHOICE_NB", {c["choice"]}, "branching decisions")
    expect(
        "PROPAGATOR_INCONSISTENCY_NB",
        {c["incons"] + c["wb_fail"]},
        "executions resulting in an inconsistency (answered by the constraint, or found when its updates are written "
        "back: each failed pass is caused by exactly one execution)",
    )
    expect(
        "PROPAGATOR_FILTER_NO_CHANGE_NB",
        {c["nc_view_incl"], c["nc_view_excl"], c["nc_shared_incl"], c["nc_shared_excl"]},
        "executions that changed no domain (any documented reading)",
    )
    if delivered is not None:
        expect("SOLVER_SOLUTION_NB", {delivered}, "solutions delivered")
    shaving = cfg["cons"] == 1
    expect(
        "SOLVER_BACKTRACK_NB",
        {c["bt_solver"], c["bt_solver"] + c["bt_shaving"]} if shaving else {c["bt_solver"]},
        "choice points resumed",
    )
    expect(
        "SOLVER_CHOICE_DEPTH",
        {c["max_top"], c["max_top"] + 1} if shaving and c["shave"] else {c["max_top"]},
        "deepest stack level reached",
    )
    if not shaving and mode[0] == "find_all":
        if got["SOLVER_BACKTRACK_NB"] != c["pushed"]:
            viol(
                "C17",
                "law-backtracks-eq-pushes",
                ctx + f"exhaustive enumeration: backtracks {got['SOLVER_BACKTRACK_NB']} != choice points created {c['pushed']}",
            )
        if got["ALG_BC_NB"] != 1 + got["SOLVER_CHOICE_NB"] + got["SOLVER_BACKTRACK_NB"]:
            viol(
                "C17",
                "law-passes",
                ctx + f"passes {got['ALG_BC_NB']} != 1 + choices {got['SOLVER_CHOICE_NB']} + backtracks "
                f"{got['SOLVER_BACKTRACK_NB']}",
            )
