"""E7 compiled bounds-checked executor (C16): the seeded workloads of E1 (in-contract models x configurations x kinds of
call) executed by the JIT-COMPILED engine of the tree under test with numba's bounds checking switched on, in a
persistent sacrificial interpreter per pool process.  Interpreted mode (E1) is a bounds-checking executor for the
Python reading of the code; this family is the same for the compiled reading: typed index arithmetic, the
address-table dispatch and every `if NUMBA_DISABLE_JIT ... else ...` branch only exist there.

Oracle: an index error raised by compiled NuCS code (directly, or reported through sys.unraisablehook when it is
raised behind a raw function address and cannot propagate), or the death of the interpreter by a signal, on in-contract
input.  A request that is not answered in time is a harness timeout (exit 2), never a pass and never a violation,
unless an index error had already been reported for it."""
from __future__ import annotations

import json
import os
import select
import subprocess
import sys
import time
from collections import Counter
from typing import Optional

from sim import gen
from sim.families import e1_engine, e5_capacity
from sim.kernel import Choices, sha

ROOT = os.path.dirname(os.path.dirname(os.path.dirname(os.path.abspath(__file__))))
WORKER = os.path.join(ROOT, "sim", "bcworker.py")
FIRST_TIMEOUT = 1500.0  # a cold compile of the whole engine with bounds checking
TIMEOUT = 300.0
HANG_CPU_SECONDS = 60.0
CHUNK = 50
CHUNK_TIMEOUT = 3000.0


class HarnessTimeout(Exception):
    pass


class Child:
    def __init__(self, boundscheck: bool = True):
        env = e5_capacity.worker_env(True)
        env.pop("NUMBA_BOUNDSCHECK", None)
        if boundscheck:
            env["NUMBA_BOUNDSCHECK"] = "1"
            env["NUMBA_CACHE_DIR"] = e5_capacity.cache_dir() + "-bc"
            os.makedirs(env["NUMBA_CACHE_DIR"], exist_ok=True)
        self.p = subprocess.Popen([sys.executable, WORKER, e5_capacity.repo_dir(), ROOT], env=env, stdin=subprocess.PIPE,
                                  stdout=subprocess.PIPE, stderr=subprocess.DEVNULL)
        self.buf = b""
        self.first = True
        self.n = 0
        r = self.read_line(FIRST_TIMEOUT)
        if not r or not r.get("ready") or (r.get("boundscheck") == "1") != boundscheck or r.get("jit_disabled"):
            self.kill()
            raise RuntimeError(f"bounds-checked worker did not start: {r}")

    def read_line(self, timeout: float) -> Optional[dict]:
        """One JSON line, None on end of stream, HarnessTimeout when nothing arrives in time."""
        end = time.time() + timeout
        fd = self.p.stdout.fileno()
        while b"\n" not in self.buf:
            left = end - time.time()
            if left <= 0:
                raise HarnessTimeout()
            r, _, _ = select.select([fd], [], [], min(left, 5.0))
            if r:
                chunk = os.read(fd, 65536)
                if not chunk:
                    return None
                self.buf += chunk
        line, self.buf = self.buf.split(b"\n", 1)
        try:
            return json.loads(line)
        except Exception:
            return {"garbage": line[:200].decode("latin1")}

    def cpu_seconds(self) -> float:
        """CPU time consumed so far by the interpreter (user + system), from /proc: unlike the wall clock it does not
        move while the machine is busy with something else."""
        try:
            with open(f"/proc/{self.p.pid}/stat") as f:
                parts = f.read().rsplit(")", 1)[1].split()
            return (int(parts[11]) + int(parts[12])) / os.sysconf("SC_CLK_TCK")
        except Exception:
            return 0.0

    def request(self, req: dict):
        """Returns (answer or None, unraisable reports, how it ended)."""
        self.n += 1
        self.was_first = self.first
        self.cpu0 = self.cpu_seconds()
        req = dict(req, id=self.n)
        try:
            self.p.stdin.write((json.dumps(req) + "\n").encode())
            self.p.stdin.flush()
        except (BrokenPipeError, OSError):
            return None, [], "died"
        reports = []
        timeout = FIRST_TIMEOUT if self.first else TIMEOUT
        self.first = False
        while True:
            try:
                r = self.read_line(timeout)
            except HarnessTimeout:
                return None, reports, "timeout"
            if r is None:
                return None, reports, "died"
            if "unraisable" in r:
                reports.append(r)
                continue
            if r.get("id") == req["id"]:
                return r, reports, "answered"

    def status(self):
        try:
            return self.p.wait(timeout=10)
        except Exception:
            return None

    def kill(self):
        try:
            self.p.kill()
            self.p.wait(timeout=10)
        except Exception:
            pass


_CHILDREN = {}  # (pid, boundscheck) -> Child: a forked pool process never shares the interpreter of its parent


def child(boundscheck: bool) -> Child:
    key = (os.getpid(), boundscheck)
    c = _CHILDREN.get(key)
    if c is None or c.p.poll() is not None:
        c = _CHILDREN[key] = Child(boundscheck)
        # the first request of an interpreter loads (or compiles) the engine: it is a warm-up, so that the time limit and
        # the CPU measure of every judged request are about the request alone
        m = {"shr": [[0, 2], [0, 2], [0, 2]], "idx": [0, 1, 2], "off": [0, 0, 0], "props": [[[0, 1, 2], "alldifferent", []]]}
        c.request({"model": m, "cfg": dict(gen.DEFAULT_CONFIG), "mode": ["find_all"]})
    return c


def drop_child(boundscheck: bool):
    c = _CHILDREN.pop((os.getpid(), boundscheck), None)
    if c is not None:
        c.kill()


def n_runs(tier: str) -> int:
    return 20000 if tier == "quick" else 600000


WARMUP = (
    (dict(gen.DEFAULT_CONFIG), ["find_all"]),
    (dict(gen.DEFAULT_CONFIG, cons=1, dom_h=3), ["minimize", 0]),
    (dict(gen.DEFAULT_CONFIG, var_h=1, dom_h=2), ["maximize", 1]),
)


def prepare(params: dict):
    """Compile once into the per-tree cache (of the bounds-checked build for C16) before the pool starts."""
    c = Child(bool(params.get("boundscheck", True)))
    try:
        m = {"shr": [[0, 2], [0, 2], [0, 2]], "idx": [0, 1, 2], "off": [0, 0, 0], "props": [[[0, 1, 2], "alldifferent", []]]}
        for cfg, mode in WARMUP:
            ans, reports, how = c.request({"model": m, "cfg": cfg, "mode": mode})
            if how != "answered" or ans.get("outcome") != "ok":
                raise RuntimeError(f"compiled warm-up failed: {how} {ans} {reports}")
    finally:
        c.kill()


def run(ch: Choices, focus: str = "C16", params: Optional[dict] = None) -> dict:
    params = params or {}
    known = params.get("known", {})
    bc = bool(params.get("boundscheck", True))
    out = {"violations": [], "probes": Counter(), "faults": Counter(), "steps": 0, "nontrivial": False}
    V = out["violations"]

    def viol(prop, oracle, msg):
        if not any(v["property"] == prop and v["oracle"] == oracle for v in V):
            V.append({"property": prop, "oracle": oracle, "message": msg})

    opts = e1_engine.focus_opts(focus, ch, known, params)
    opts["custom_checker"] = False  # the registered checking constraint exists in the interpreted simulation only
    model = gen.gen_model(ch, opts)
    # magnitude: parameters of the linear constraints near the top of the documented 32 bits (gen.magnify)
    model = gen.magnify(ch, model, out["probes"])
    out["model"] = gen.render_model(model)
    md = {k: model[k] for k in ("shr", "idx", "off", "props")}
    out["model_dict"] = md
    cfg = gen.gen_config(ch, model) if ch.chance(2, 3, "cfg.random") else dict(gen.DEFAULT_CONFIG)
    if ch.chance(1, 2, "permute"):
        model, _ = gen.permute_props(ch, model)
        md = {k: model[k] for k in ("shr", "idx", "off", "props")}
    mode = e1_engine.pick_mode(ch, "C17" if focus == "C16" else focus, model)
    ctx = f"[{gen.render_model(model)} cfg={gen.cfg_str(cfg)} {mode}] compiled{' with bounds checking' if bc else ''}: "
    want = focus != "C16"
    ref = None
    if want:
        from sim import refmodel as R

        ref = sorted(R.solutions(model))
    c = child(bc)
    ans, reports, how = c.request({"model": md, "cfg": cfg, "mode": mode, "limit": 3000 if not want else 3 * len(ref) + 50,
                                   "want_solutions": want})
    summary = [how, None if ans is None else [ans.get("outcome"), ans.get("n"), ans.get("value"), ans.get("etype")], len(reports)]
    out["probes"]["compiled_bounds_checked_calls" if bc else "compiled_calls"] += 1
    if reports:
        r = reports[0]
        viol("C16", "compiled-index-error", ctx + f"{r['unraisable']} at {r.get('where')} (raised behind a function address: the engine went on with whatever was in memory); call ended: {how}")
    elif how == "answered" and ans.get("outcome") == "error" and ans.get("etype") == "IndexError":
        viol("C16", "compiled-index-error", ctx + f"{ans['error']} at {ans.get('where')}")
    if how == "died":
        st = c.status()
        drop_child(bc)
        if st is not None and st < 0:
            viol("C16", "compiled-abort", ctx + f"the interpreter was killed by signal {-st}")
            if want:
                viol(focus, "compiled-abort", ctx + f"the interpreter was killed by signal {-st}")
        else:
            raise RuntimeError(f"compiled worker ended with status {st} while executing {out['model']}")
    elif how == "timeout":
        burnt = c.cpu_seconds() - c.cpu0
        first = c.was_first
        drop_child(bc)
        if not reports:
            # a call that has burnt a minute of CPU in compiled code, after the compilation, on a problem that the
            # interpreted engine finishes within its step budget, is a call that does not return
            verdict = interpreted_returns(model, cfg, mode) if (want and not first and burnt >= HANG_CPU_SECONDS) else None
            if verdict is True:
                msg = ctx + f"no answer after {TIMEOUT:.0f}s and {burnt:.0f}s of CPU, the interpreted engine answers the same call within {e1_engine.step_budget(model, cfg)} simulated steps"
                viol("C03" if mode[0] in ("minimize", "maximize") else "C02", "compiled-call-does-not-return", msg)
                viol("C04", "compiled-call-does-not-return", msg)
            elif verdict == "budget":
                msg = ctx + f"no answer after {TIMEOUT:.0f}s and {burnt:.0f}s of CPU, and the interpreted engine exceeds {e1_engine.step_budget(model, cfg)} simulated steps on the same call"
                viol("C03" if mode[0] in ("minimize", "maximize") else "C02", "call-does-not-return", msg)
                viol("C04", "step-budget", msg)
            else:
                raise HarnessTimeout(f"no answer within the time limit for {out['model']} {cfg} {mode}")
    elif ans.get("outcome") == "error":
        out["probes"]["other_errors:" + str(ans.get("etype"))] += 1
        if want:
            viol("C03" if mode[0] in ("minimize", "maximize") else "C02", "crash", ctx + f"raised {ans['error']} at {ans.get('where')}")
    elif want:
        judge(model, mode, ref, ans, viol, ctx, out)
    if how == "answered" and reports:
        drop_child(bc)  # never reuse an interpreter whose memory may have been written out of bounds
    out["log_sha"] = sha([out["model"], cfg, mode, summary, None if ans is None else ans.get("solutions")])
    out["key"] = sha([out["model"], [cfg["cons"], cfg["var_h"], cfg["dom_h"]], cfg.get("decision"), mode])[:16]
    out["nontrivial"] = len(model["props"]) >= 1 and how == "answered"
    out["sample"] = {"model": out["model"], "config": gen.cfg_str(cfg), "mode": mode, "answer": summary}
    return out


def interpreted_returns(model, cfg, mode) -> bool:
    """The same call on the interpreted engine of this (pool) interpreter, under the step budget of E1."""
    from sim import nucsio
    from sim.steps import CLOCK, StepBudgetExceeded

    if not os.environ.get("NUMBA_DISABLE_JIT"):
        return False
    from sim import seams

    seams.install()  # imports the engine: the step clock registers the code objects of what is imported
    CLOCK.install()
    CLOCK.set_budget(e1_engine.step_budget(model, cfg))
    try:
        solver = nucsio.build_solver(nucsio.build_problem(model), cfg)
        if mode[0] == "find_all":
            solver.find_all()
        elif mode[0] == "partial":
            it = solver.solve()
            for _ in range(mode[1]):
                if next(it, None) is None:
                    break
        elif mode[0] == "minimize":
            solver.minimize(mode[1])
        else:
            solver.maximize(mode[1])
        return True
    except StepBudgetExceeded:
        return "budget"
    except Exception:
        return False
    finally:
        CLOCK.clear_budget()


def judge(model, mode, ref, ans, viol, ctx, out):
    """C01 / C02 / C03 oracles of E1 on what the compiled engine (the shipped mode) returned."""
    from sim import refmodel as R

    sols = [tuple(s) for s in ans.get("solutions", [])]
    for s in sols:
        msg = R.check_solution(model, s)
        if msg:
            viol("C01", "solution-violates", ctx + f"reported {list(s)}: {msg}")
            break
    if mode[0] == "find_all":
        out["probes"]["compiled_enumerations"] += 1
        if sorted(sols) != ref:
            missing = [s for s in ref if s not in sols]
            extra = [s for s in sols if s not in ref]
            dup = [s for s in set(sols) if sols.count(s) > 1]
            viol("C02", "multiset-differs", ctx + f"enumerated {len(sols)} solutions, reference has {len(ref)}; missing {missing[:3]} extra {extra[:3]} duplicated {dup[:3]}")
        st = ans.get("stats") or {}
        if st and st.get("SOLVER_SOLUTION_NB") != len(sols):
            viol("C17", "counter-SOLVER_SOLUTION_NB", ctx + f"SOLVER_SOLUTION_NB = {st.get('SOLVER_SOLUTION_NB')} but {len(sols)} solutions delivered")
    elif mode[0] == "partial":
        # an assignment of the variables is delivered once per assignment of the shared domains that gives it (a shared
        # domain that no variable refers to multiplies it): more copies than the reference has is a duplicate
        over = [s for s in set(sols) if sols.count(s) > ref.count(s) and s in ref]
        if over:
            viol("C02", "duplicate-in-partial", ctx + f"first {len(sols)} solutions contain {over[0]} {sols.count(over[0])} times, the reference has it {ref.count(over[0])} time(s): {sols}")
        if len(sols) < min(mode[1], len(ref)):
            viol("C02", "partial-too-few", ctx + f"asked for {mode[1]} solutions, got {len(sols)}, reference has {len(ref)}")
    else:
        out["probes"]["compiled_optimisations"] += 1
        v = mode[1]
        res = sols[0] if sols else None
        if not ref:
            if res is not None:
                viol("C03", "result-on-infeasible", ctx + f"returned {list(res)} but the problem is infeasible")
        else:
            best = min(s[v] for s in ref) if mode[0] == "minimize" else max(s[v] for s in ref)
            if res is None:
                viol("C03", "none-on-feasible", ctx + f"returned None but the reference optimum is {best}")
            elif res not in ref:
                viol("C03", "infeasible-result", ctx + f"returned {list(res)} which is not a solution")
            elif res[v] != best:
                viol("C03", "not-optimal", ctx + f"returned value {res[v]} for variable {v}, optimum is {best}")
