"""E5 capacity-sim (C19): the 'fault' is capacity exhaustion.  Enumerated sweep of stack heights x required depths x
heuristics (1 or 2 levels per choice) x consistency algorithm (shaving uses a scratch level), and of problem sizes
around the 8/16-bit index limits.  Every point runs COMPILED in a sacrificial interpreter (an abort is an observation)
and once more interpreted.  Oracle: error / refusal, or a result equal to the ample-capacity reference."""
from __future__ import annotations

import hashlib
import json
import os
import subprocess
import sys
from collections import Counter
from typing import List, Optional

from sim.kernel import Choices, sha

ROOT = os.path.dirname(os.path.dirname(os.path.dirname(os.path.abspath(__file__))))
WORKER = os.path.join(ROOT, "sim", "capworker.py")
TIMEOUT = 600


def repo_dir():
    return os.environ.get("VERIF_REPO", "/repo")


def tree_sha(repo=None):
    repo = repo or repo_dir()
    h = hashlib.sha256()
    for dp, dn, fn in sorted(os.walk(os.path.join(repo, "nucs"))):
        dn.sort()
        if "__pycache__" in dp:
            continue
        for f in sorted(fn):
            if f.endswith(".py"):
                h.update(f.encode())
                with open(os.path.join(dp, f), "rb") as fh:
                    h.update(fh.read())
    return h.hexdigest()[:20]


def cache_dir():
    d = os.path.join(ROOT, ".cache", "numba", tree_sha())
    os.makedirs(d, exist_ok=True)
    return d


def worker_env(compiled: bool):
    env = {k: v for k, v in os.environ.items() if k not in ("NUMBA_DISABLE_JIT", "VERIF_CHILD")}
    env["PYTHONHASHSEED"] = "0"
    env["OMP_NUM_THREADS"] = "1"
    env["NUMBA_NUM_THREADS"] = "1"
    if compiled:
        env["NUMBA_CACHE_DIR"] = cache_dir()
    else:
        env["NUMBA_DISABLE_JIT"] = "1"
    return env


def points(tier: str) -> List[dict]:
    pts = []
    th = tier == "thorough"
    heights = [1, 2, 3, 4, 5, 6, 127, 128, 129, 251, 252, 253]
    if tier == "thorough":
        heights += list(range(7, 40)) + [64, 100, 200, 250]
    for h in heights:
        for delta in (range(-3, 4) if th else range(-2, 3)):
            # one level per choice (min value): n booleans need levels 0..n, i.e. height n+1
            n = (h - 1) + delta
            if n >= 1:
                pts.append({"kind": "bools", "n": n, "height": h, "dom_h": 0, "cons": 0, "limit": 1, "needs": n + 1})
                if h <= 6 or (tier == "thorough" and h <= 12):
                    pts.append({"kind": "bools", "n": n, "height": h, "dom_h": 1, "cons": 0, "limit": 1 << n, "needs": n + 1})
                if h in (2, 3, 4, 5, 128, 253) or tier == "thorough":
                    # shaving probes push one scratch level above the current one
                    pts.append({"kind": "bools", "n": n, "height": h, "dom_h": 0, "cons": 1, "limit": 1, "needs": n + 1})
        for delta in range(-2, 3):
            # two levels per choice (mid value on [0,2]): n variables need about 2n levels
            n = max(1, (h - 1) // 2 + delta)
            if h <= 129 and n <= 70:
                pts.append({"kind": "wide", "n": n, "w": 3, "height": h, "dom_h": 3, "cons": 0, "limit": 1, "needs": 2 * n + 1})
                if h <= 6:
                    pts.append({"kind": "wide", "n": n, "w": 3, "height": h, "dom_h": 4, "cons": 0, "limit": 3 ** n, "needs": 2 * n + 1})
                    pts.append({"kind": "chain", "n": n + 1, "w": 4, "height": h, "dom_h": 2, "cons": 0, "limit": 1000, "needs": None})
    # optimisation restarts and a generator resumed after each solution, at and around the exact-fit depth
    for h in (3, 4, 5, 6, 128):
        for delta in (-1, 0, 1):
            n = (h - 1) + delta
            if n >= 2:
                pts.append({"kind": "bools", "n": n, "height": h, "dom_h": 0, "cons": 0, "op": "max", "objective": n - 1, "needs": n + 1})
                pts.append({"kind": "bools", "n": n, "height": h, "dom_h": 1, "cons": 1, "op": "min", "objective": 0, "needs": n + 1})
                if h <= 6:
                    pts.append({"kind": "chain", "n": n, "w": 3, "height": h, "dom_h": 0, "cons": 0, "limit": 10 ** 6, "needs": None})
    # branch and bound whose FIRST incumbent is found at depth 1 (x0 = 0 forces everything) while the improving
    # iterations need up to n + 1 levels: an overflow that comes after an incumbent exists must still be an error, the
    # incumbent is not the optimum
    for h in ((2, 3, 4, 6) if not th else (2, 3, 4, 5, 6, 7, 8, 9)):
        for n in ((5, 8) if not th else (4, 5, 8, 10)):
            for cons in (0, 1):
                pts.append({"kind": "gated", "n": n, "height": h, "dom_h": 0, "cons": cons, "limit": 1, "op": "max", "objective": n + 1, "needs": None, "ref_height": 64})
                pts.append({"kind": "gated", "n": n, "height": h, "dom_h": 0, "cons": cons, "limit": 1, "op": "min", "objective": 0, "needs": None, "ref_height": 64})
    # the same exhaustion inside a worker of the multiprocessing solver: the caller must see an error, not a partial answer
    for h in ((2, 4, 6, 8) if not th else (2, 3, 4, 5, 6, 7, 8)):
        for n in ((5,) if not th else (3, 5)):
            for k in (2, 3):
                pts.append({"kind": "gated", "n": n, "height": h, "dom_h": 0, "cons": 0, "limit": 10 ** 6, "workers": k, "needs": None, "ref_height": 64})
                pts.append({"kind": "gated", "n": n, "height": h, "dom_h": 0, "cons": 0, "limit": 1, "workers": k, "op": "max", "objective": n + 1, "needs": None, "ref_height": 64})
            pts.append({"kind": "bools", "n": n + 2, "height": h, "dom_h": 1, "cons": 0, "limit": 10 ** 6, "workers": 2, "needs": None, "ref_height": 64})
    # two levels per choice right at the representable limit: the 8-bit top of stack must not wrap
    for h in (250, 251, 252, 253, 254, 255, 256):
        for delta in (-1, 0, 1, 2):
            n = (h - 1) // 2 + delta
            for dh in (3, 4):
                pts.append({"kind": "wide", "n": n, "w": 3, "height": h, "dom_h": dh, "cons": 0, "limit": 1, "needs": 2 * n + 1, "ref_height": 253})
            pts.append({"kind": "wide", "n": n, "w": 3, "height": h, "dom_h": 3, "cons": 1, "limit": 1, "needs": 2 * n + 1, "ref_height": 253})
    # heights the 8-bit stack pointer cannot represent (or that are not heights at all)
    for h in (254, 255, 256, 257, 300, 512, 1000, 0, -1):
        pts.append({"kind": "bools", "n": 5, "height": h, "dom_h": 0, "cons": 0, "limit": 32, "needs": 6})
        if h >= 254:
            pts.append({"kind": "bools", "n": h + 3, "height": h, "dom_h": 0, "cons": 0, "limit": 1, "needs": h + 4, "ref_height": h})
    # sizes around 2^16 / 2^8; the expected first solution is known analytically
    for k in (650, 654, 655, 656, 660, 700):
        pts.append({"kind": "many_params", "k": k, "per": 100, "height": 8, "limit": 4, "expect_n": 4, "total": k * 100})
    for k in (1088, 1092, 1093, 1100):
        pts.append({"kind": "many_positions", "k": k, "per": 60, "height": 8, "limit": 4, "expect_n": 4, "total": k * 60})
    for n in (65533, 65534, 65535, 65536, 65537):
        pts.append({"kind": "many_domains", "n": n, "height": 4, "limit": 2, "expect_n": 2, "total": n + 1})
    for n in (65534, 65535, 65536, 65537, 65538, 65540, 70000):
        # x0 + x1 <= 3 over [0,3]^2: 10 solutions, each a vector of n values whose last one is 3 (or a refusal)
        pts.append({"kind": "many_domains_decided", "n": n, "height": 8, "limit": 100, "expect_n": 10, "decision": [0, 1],
                    "expect_sums": sorted(a + b + 3 for a in range(4) for b in range(4) if a + b <= 3), "total": n})
    for n in (254, 255, 256, 257, 258):
        pts.append({"kind": "many_types", "n": n, "height": 8, "limit": 4, "expect_n": 3, "total": n})
    for p in pts:
        if "expect_n" in p:
            p["no_ref"] = True
    return pts


ENUMERATED = True


CHUNK = 1
CHUNK_TIMEOUT = 3000


def n_runs(tier: str) -> int:
    return len(points(tier))


def prepare(params: dict):
    """Compile once (cold ~40-60 s, warm ~2 s) into the per-tree numba cache before the pool starts."""
    spec = {"kind": "chain", "n": 3, "w": 4, "height": 16, "dom_h": 3, "cons": 1, "limit": 100}
    for spec in (spec, dict(spec, dom_h=4, cons=0, kind="wide", w=3), dict(spec, dom_h=1), dict(spec, dom_h=2), dict(spec, dom_h=0)):
        subprocess.run([sys.executable, WORKER, repo_dir(), json.dumps(spec)], env=worker_env(True), capture_output=True, timeout=900)


def run_point(spec: dict, compiled: bool):
    for attempt in range(2):
        try:
            r = subprocess.run([sys.executable, WORKER, repo_dir(), json.dumps(spec)], env=worker_env(compiled),
                               capture_output=True, text=True, timeout=TIMEOUT)
        except subprocess.TimeoutExpired:
            if attempt == 0:
                continue
            return {"rc": "timeout", "lines": [], "stderr": ""}
        lines = []
        for l in r.stdout.splitlines():
            try:
                lines.append(json.loads(l))
            except Exception:
                pass
        return {"rc": r.returncode, "lines": lines, "stderr": r.stderr[-400:]}
    return {"rc": "timeout", "lines": [], "stderr": ""}


def judge(spec: dict, res: dict, mode: str):
    """Returns (verdict, message): verdict in ok-equal / ok-error / violation."""
    ref = next((l for l in res["lines"] if l.get("phase") == "ref"), None)
    pt = next((l for l in res["lines"] if l.get("phase") == "point"), None)
    if res["rc"] == "timeout":
        return "violation", ("hang", f"{mode}: no answer within {TIMEOUT}s (twice)")
    if pt is None or res["rc"] != 0:
        return "violation", ("abort", f"{mode}: interpreter died with status {res['rc']} ({res['stderr'].strip()[-200:]})")
    if pt["outcome"] == "error":
        return "ok-error", pt["error"]
    if "expect_n" in spec:
        want = spec["expect_n"]
        if pt["n"] != want:
            return "violation", ("wrong-result", f"{mode}: {pt['n']} solutions, expected {want}: {pt['solutions'][:3]}")
        if "expect_sums" in spec and sorted(s_[0] for s_ in pt["solutions"]) != spec["expect_sums"]:
            return "violation", ("wrong-result", f"{mode}: solutions (sum, length) {pt['solutions'][:4]}.., expected sums {spec['expect_sums']}")
        return "ok-equal", ""
    needs = spec.get("needs")
    if needs is not None and isinstance(spec["height"], int) and spec["height"] >= 1 and needs > spec["height"]:
        # the search provably needs more levels than configured: an answer without an error, even a right one, means
        # the overflow went unreported (it ran in the spare levels or past the arrays)
        return "violation", ("capacity-exceeded-not-reported", f"{mode}: the search needs {needs} stack levels, stack_max_height is {spec['height']}, yet no error was raised (answer {str(pt['solutions'][:1])[:80]})")
    exp = expected_first(spec)
    if exp is not None and pt["solutions"][:1] != [exp]:
        return "violation", ("wrong-result", f"{mode}: height {spec['height']} gives first solution {str(pt['solutions'][:1])[:120]}, the definition gives {str(exp)[:60]}")
    if exp is not None and spec.get("needs") and spec["cons"] == 0 and pt["depth"] != spec["needs"] - 1:
        return "violation", ("wrapped-statistic", f"{mode}: depth statistic {pt['depth']} but the first solution needs depth {spec['needs'] - 1}")
    if ref is None or ref["outcome"] != "ok":
        return "ok-equal" if pt["outcome"] == "ok" else "ok-error", "no reference"
    if (pt["solutions"], pt["n"]) != (ref["solutions"], ref["n"]):
        return "violation", ("wrong-result", f"{mode}: height {spec['height']} gives {pt['n']} solutions {pt['solutions'][:2]}, ample stack gives {ref['n']} {ref['solutions'][:2]}")
    if not spec.get("workers") and (pt["depth"] != ref["depth"] or pt["choices"] != ref["choices"]):
        return "violation", ("wrapped-statistic", f"{mode}: depth/choices {pt['depth']}/{pt['choices']} vs {ref['depth']}/{ref['choices']} with an ample stack")
    return "ok-equal", ""


def expected_first(spec: dict):
    """First solution known from the definition of the heuristic (independent of any run)."""
    if spec.get("limit") != 1 or spec.get("kind") not in ("bools", "wide"):
        return None
    n = spec["n"]
    if spec["kind"] == "bools":
        v = {0: 0, 1: 1}.get(spec.get("dom_h", 0))
    else:
        v = {3: 1, 4: 1}.get(spec.get("dom_h", 0)) if spec.get("w") == 3 else None
    if v is None:
        return None
    sol = [v] * n
    return sol if n <= 40 else [sum(sol), n]


def run(ch: Choices, focus: str = "C19", params: Optional[dict] = None) -> dict:
    params = params or {}
    pts = points(params.get("tier", "quick"))
    idx = params.get("run_index")
    i = ch.fixed(len(pts), "point", idx % len(pts) if idx is not None else None)
    spec = pts[i]
    out = {"violations": [], "probes": Counter(), "faults": Counter(), "steps": 0, "nontrivial": True}
    verdicts = {}
    for mode, compiled in (("compiled", True), ("interpreted", False)):
        res = run_point(spec, compiled)
        v, msg = judge(spec, res, mode)
        verdicts[mode] = v if v != "violation" else "violation:" + msg[0]
        out["probes"][f"{mode}:{v}"] += 1
        if v == "violation":
            if not any(x["oracle"] == msg[0] for x in out["violations"]):
                out["violations"].append({"property": "C19", "oracle": msg[0], "message": f"point {spec}: {msg[1]}"})
        elif v == "ok-error":
            out["faults"]["capacity-exceeded-reported"] += 1
    needs = spec.get("needs")
    if needs is not None and isinstance(spec["height"], int):
        out["faults"]["depth-exceeds-height" if needs > spec["height"] else "depth-fits"] += 1
        if needs == spec["height"]:
            out["probes"]["stack_exactly_full"] += 1
    if "total" in spec:
        out["faults"]["size-around-index-limit"] += 1
    out["log_sha"] = sha([spec, verdicts])
    out["key"] = sha(spec)[:16]
    out["sample"] = {"point": spec, "verdicts": verdicts}
    return out
