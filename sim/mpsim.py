"""Simulated processes, queue and clock for the multi-party part (DESIGN.md 2.4).

The real MultiprocessingSolver parent loop runs unmodified against SimProcess / SimQueue, installed in place of the
module globals `Process` and `Queue` of nucs.solvers.multiprocessing_solver.  Workers are run eagerly to completion
(they share nothing and receive nothing), which records each worker's message stream; the simulator then owns the
merge order, the instant at which each message becomes readable, where a stream is cut by death, and when each
enqueued statistics array was pickled.  Time is virtual (integer milliseconds); nothing sleeps.
"""
from __future__ import annotations

import pickle
import queue as _queue
from typing import Callable, Dict, List, Optional

import numpy as np


STARVATION_MS = 600_000  # a caller still polling 10 virtual minutes after the last worker exited will poll for ever


class SimDeadlock(Exception):
    """get() with no timeout, no deliverable message and no live producer: blocks forever in a real deployment."""


class SimBusyWait(Exception):
    """too many queue operations without progress of virtual time"""


class HarnessUnsupported(Exception):
    pass


class WorkerCrash(Exception):
    """injected: the worker raises at this put"""


class Message:
    __slots__ = ("w", "i", "solution", "stats_at_put", "stats_later", "t_put", "t_avail", "payload", "payload_w", "_size")

    def __init__(self, w, i, solution, stats_at_put):
        self.w, self.i = w, i
        self.solution = solution
        self.stats_at_put = stats_at_put
        self.stats_later = None
        self.t_put = 0
        self.t_avail = 0
        self.payload = None
        self._size = None


class Stream:
    """What one worker did: messages in order, how it ended."""

    def __init__(self, w):
        self.w = w
        self.msgs: List[Message] = []
        self.error: Optional[BaseException] = None  # genuine exception of the real worker code
        self.final_stats = None
        self.listener = None
        self.steps = 0


class _Recorder:
    """Stands for the queue inside the worker's address space."""

    def __init__(self, stream: Stream):
        self.stream = stream

    def put(self, obj, block=True, timeout=None):
        w, sol, stats = obj
        m = Message(self.stream.w, len(self.stream.msgs), None if sol is None else np.array(sol, copy=True),
                    np.array(stats, copy=True))
        if self.stream.msgs:
            self.stream.msgs[-1].stats_later = m.stats_at_put  # what a late pickle of the previous message sees
        m.payload_w = w
        self.stream.msgs.append(m)
        self.stream.live_stats = stats

    def put_nowait(self, obj):
        self.put(obj)

    def __getattr__(self, name):
        raise HarnessUnsupported(f"worker used Queue.{name}")


class World:
    """One simulated deployment: clock, processes, the queue(s), the schedule and the faults."""

    def __init__(self, ch, plan: dict, run_worker: Callable, stream_cache: Optional[dict] = None):
        self.ch = ch
        self.plan = plan  # {"template":..., "faults": {w: {"kind":..., "cut":..., "lost":...}}, "late_pickle": bool}
        self.run_worker = run_worker
        self.cache = stream_cache if stream_cache is not None else {}
        self.now = 0
        self.procs: List[SimProcess] = []
        self.queues: List[SimQueue] = []
        self.ops = 0
        self.gets = 0
        self.delivered: List[Message] = []
        self.delivery_order: List[int] = []
        self.fired = {}
        self.log = []
        self.last_progress_ops = 0
        self.bystanders = [_Bystander(i) for i in range(int(plan.get("bystanders", 0) or 0))]

    # the two names patched into nucs.solvers.multiprocessing_solver
    def Process(self, group=None, target=None, name=None, args=(), kwargs=None, daemon=None):
        p = SimProcess(self, target, args, kwargs or {}, name, daemon)
        self.procs.append(p)
        return p

    def Queue(self, maxsize=0):
        q = SimQueue(self)
        self.queues.append(q)
        return q

    def active_children(self):
        """multiprocessing.active_children(): every living child of the CALLING process - this call's workers that
        are still alive, plus whatever else the application owns (plan['bystanders']: an unrelated Process or Pool
        worker, the workers of an earlier enumeration that was abandoned and sit blocked on a full pipe)."""
        self.tick()
        live = [p for p in self.procs if p.started and p._alive_now()]
        return live + self.bystanders

    def tick(self):
        """Every queue / process operation of the parent costs `opcost` virtual milliseconds (seeded per run): in a
        real deployment time passes between a get() that timed out and the is_alive() that follows it."""
        self.ops += 1
        self.now += self.plan.get("opcost", 0)
        if self.ops > 400000:
            raise SimBusyWait(f"{self.ops} queue/process operations")
        if self.ops - self.last_progress_ops > 20000:
            raise SimBusyWait(f"{self.ops - self.last_progress_ops} queue/process operations without progress")

    def progress(self):
        self.last_progress_ops = self.ops


class _Bystander:
    """A living child of the caller that has nothing to do with the call under test."""

    def __init__(self, i):
        self.name = f"Bystander-{i}"
        self.pid = 900 + i
        self.daemon = False
        self.exitcode = None

    def is_alive(self):
        return True

    def join(self, timeout=None):
        if timeout is None:
            raise SimDeadlock("join() on a child of the application that never exits")

    def __getattr__(self, name):
        raise HarnessUnsupported(f"Process.{name} is not modelled for bystander children")


class SimProcess:
    _pid = 1000

    def __init__(self, world: World, target, args, kwargs, name, daemon):
        self.world = world
        self.target, self.args, self.kwargs = target, args, kwargs
        self.name = name or f"SimProcess-{len(world.procs) + 1}"
        self.daemon = daemon
        self.started = False
        self.stream: Optional[Stream] = None
        self.exit_time = None
        self._exitcode = None
        SimProcess._pid += 1
        self.pid = SimProcess._pid
        self.index = len(world.procs)
        self.queue = None

    # ------------------------------------------------------------------------------------------------ lifecycle
    def start(self):
        if self.started:
            raise AssertionError("cannot start a process twice")
        self.started = True
        w = self.world
        w.tick()
        # the queue(s) among the arguments are replaced by a recorder living in the worker's address space
        key = (self.index, getattr(self.target, "__name__", str(self.target)), tuple(a for a in self.args if not isinstance(a, SimQueue)))
        qs = [a for a in self.args if isinstance(a, SimQueue)]
        if len(qs) != 1:
            raise HarnessUnsupported("worker target without exactly one queue argument")
        self.queue = qs[0]
        if key in w.cache:
            stream = w.cache[key]
        else:
            stream = Stream(self.index)
            solver = self.target.__self__
            clone = pickle.loads(pickle.dumps(solver))  # own address space (what spawn does; fork keeps parent intact)
            rec = _Recorder(stream)
            args = tuple(rec if isinstance(a, SimQueue) else a for a in self.args)
            w.run_worker(stream, clone, self.target.__name__, args, self.kwargs)
            stream.final_stats = np.array(clone.statistics, copy=True)
            if stream.msgs:
                stream.msgs[-1].stats_later = stream.final_stats
            w.cache[key] = stream
        self.stream = stream
        self.queue.attach(self, stream)

    def blocked_flushing(self) -> bool:
        """Back-pressure of the pipe: a worker (not a killed one) cannot exit while messages it has put are still in
        its feeder buffer, i.e. while the pipe (capacity plan['pipe_bytes'], default 64 KiB) is full of unread data."""
        if self._exitcode is not None and self._exitcode < 0:
            return False
        return self.queue is not None and self.queue.buffered_in_producer(self.index)

    def _alive_now(self):
        if not self.started:
            return False
        if self.exit_time is None or self.world.now < self.exit_time:
            return True
        return self.blocked_flushing()

    def is_alive(self):
        self.world.tick()
        return self._alive_now()

    @property
    def exitcode(self):
        if not self.started or self.is_alive():
            return None
        return self._exitcode

    def join(self, timeout=None):
        w = self.world
        w.tick()
        if not self.started:
            raise AssertionError("can only join a started process")
        if self.exit_time is None:
            raise SimDeadlock("join() on a process that never exits")
        if timeout is None:
            if w.now < self.exit_time:
                w.now = self.exit_time
                w.progress()
            if self.blocked_flushing():
                w.fired["join-while-pipe-full"] = w.fired.get("join-while-pipe-full", 0) + 1
                raise SimDeadlock(
                    f"join() of worker {self.index} at t={w.now}ms: the worker cannot exit because the pipe is full of "
                    f"unread messages and the caller, blocked in join(), no longer reads the queue"
                )
        else:
            t = int(timeout * 1000)
            if t > 0:
                w.now = min(self.exit_time, w.now + t) if w.now < self.exit_time else w.now
                w.progress()

    def __getattr__(self, name):
        # anything of the Process API that the fakes do not model is a harness limitation, never a verdict
        raise HarnessUnsupported(f"Process.{name} is not modelled by SimProcess")

    def terminate(self):
        self.world.tick()
        if self.exit_time is None or self.world.now < self.exit_time:
            self.exit_time = self.world.now
            self._exitcode = -15
            self.queue.cut(self, self.world.now)

    kill = terminate

    def close(self):
        pass


class SimQueue:
    def __init__(self, world: World):
        self.world = world
        self.pending: Dict[int, List[Message]] = {}  # per producer FIFO of messages not yet delivered
        self.producers: Dict[int, SimProcess] = {}
        self.closed = False
        self.put_times: List[int] = []  # instants of every put() made by a worker, delivered or not
        self.got = 0

    # ---------------------------------------------------------------------- a queue that outlives one call
    def rebind(self, world: World):
        """The queue was created by the parent OBJECT (its constructor ran under `detached()`), not by the call: a
        legal implementation choice.  It then serves every call of that object, each simulated in a World of its own.
        Whatever earlier calls left unread is still in it - the messages of an abandoned enumeration, of workers that
        went on producing after the caller lost interest, what was in flight when a dead worker was reported - and is
        readable at once, in the put order of each earlier producer, merged with the new messages by the schedule."""
        stale = []
        for q in self.pending.values():
            stale.extend(q)
        self.world = world
        world.queues.append(self)
        self.pending = {}
        self.producers = {}
        self.put_times = []
        self.got = 0
        for m in stale:
            key = m.w if m.w >= STALE_BASE else STALE_BASE + m.w
            m.w = key
            m.t_put = m.t_avail = 0
            self.pending.setdefault(key, []).append(m)
            self.put_times.append(0)
        if stale:
            world.fired["stale-messages-of-an-earlier-call"] = world.fired.get("stale-messages-of-an-earlier-call", 0) + len(stale)

    # ------------------------------------------------------------------------------ producers (simulator side)
    def attach(self, proc: SimProcess, stream: Stream):
        w = self.world
        ch = w.ch
        plan = w.plan
        widx = proc.index
        fault = plan.get("faults", {}).get(widx)
        template = plan.get("template", "merge")
        t = w.now + plan.get("start", {}).get(widx, 0)
        msgs = []
        n = len(stream.msgs)
        cut = n  # number of messages put before death
        kind = None
        lost = 0
        if fault:
            kind = fault["kind"]
            cut = min(fault["cut"], n)
            lost = min(fault.get("lost", 0), cut) if kind == "kill" else 0
        with ch.scope(f"w{widx}"):
            for i, m in enumerate(stream.msgs[:cut]):
                d = delay(ch, template, "compute")
                if plan.get("stall", {}).get(widx) == i:
                    d += plan.get("stall_ms", 300000)
                    w.fired["stall"] = w.fired.get("stall", 0) + 1
                t += d
                mm = Message(widx, i, m.solution, m.stats_at_put)
                mm.stats_later = m.stats_later
                mm.payload_w = m.payload_w
                mm.t_put = t
                mm.t_avail = t + delay(ch, template, "flush")
                # late pickling: the statistics array is snapshotted by the feeder thread at any instant up to the
                # worker's next put / exit
                late = plan.get("late_pickle") and mm.stats_later is not None and ch.chance(1, 2, "late")
                if late and not np.array_equal(mm.stats_later, mm.stats_at_put):
                    w.fired["late_pickle"] = w.fired.get("late_pickle", 0) + 1
                stats = mm.stats_later if late else mm.stats_at_put
                mm.payload = (mm.payload_w, None if mm.solution is None else np.array(mm.solution, copy=True),
                              np.array(stats, copy=True))
                msgs.append(mm)
            t_end = t + delay(ch, template, "compute")
        if msgs:
            # FIFO pipe: availability is monotone within one producer
            for a, b in zip(msgs, msgs[1:]):
                if b.t_avail < a.t_avail:
                    b.t_avail = a.t_avail
        if kind is None and stream.error is None:
            proc.exit_time = max([t_end] + [m.t_avail for m in msgs])
            proc._exitcode = 0
        elif kind in ("exception", "exit0") or (kind is None and stream.error is not None):
            # a raising worker flushes what it has enqueued (feeder thread joined at interpreter exit); "exit0" is a
            # worker that leaves through SystemExit(0) (sys.exit() in user code, a graceful SIGTERM handler inherited
            # from the host application): no completion marker, but exit code 0
            proc.exit_time = max([t_end] + [m.t_avail for m in msgs])
            proc._exitcode = 0 if kind == "exit0" else 1
            if kind:
                w.fired["crash-" + kind] = w.fired.get("crash-" + kind, 0) + 1
        elif kind == "kill":
            self.put_times.extend(m.t_put for m in msgs[len(msgs) - lost:] if lost)
            proc.exit_time = t_end
            proc._exitcode = -9
            if lost:
                msgs = msgs[: len(msgs) - lost]
                w.fired["crash-kill-lost-messages"] = w.fired.get("crash-kill-lost-messages", 0) + 1
            for m in msgs:
                m.t_avail = min(m.t_avail, proc.exit_time)
            w.fired["crash-kill"] = w.fired.get("crash-kill", 0) + 1
        self.pending[widx] = msgs
        self.producers[widx] = proc
        self.put_times.extend(m.t_put for m in msgs)

    def cut(self, proc: SimProcess, t: int):
        self.pending[proc.index] = [m for m in self.pending.get(proc.index, []) if m.t_avail <= t]

    # -------------------------------------------------------------------------------------- consumer (real code)
    def _heads(self):
        return [q[0] for q in self.pending.values() if q]

    def get(self, block=True, timeout=None):
        w = self.world
        w.tick()
        w.gets += 1
        heads = self._heads()
        ready = [m for m in heads if m.t_avail <= w.now]
        if not ready and block:
            future = sorted(set(m.t_avail for m in heads))
            if timeout is None:
                if not future:
                    raise SimDeadlock(
                        f"get() without timeout at t={w.now}ms: nothing in flight and no producer will ever put again"
                    )
                w.now = future[0]
                w.progress()
            else:
                if timeout < 0:
                    timeout = 0
                if not future and self.producers and all(
                    p.exit_time is not None and p.exit_time + STARVATION_MS < w.now and not p.blocked_flushing()
                    for p in self.producers.values()
                ) and len(self.producers) == len(w.procs):
                    # polling an empty queue for ever: every producer exited long ago, nothing is in flight
                    raise SimDeadlock(
                        f"get(timeout={timeout}) at t={w.now}ms: every worker exited more than {STARVATION_MS // 1000} "
                        f"virtual seconds ago and nothing is in flight, yet the caller keeps polling"
                    )
                horizon = w.now + int(timeout * 1000)
                if future and future[0] <= horizon:
                    w.now = future[0]
                    w.progress()
                else:
                    if horizon > w.now:
                        w.now = horizon
                        w.progress()
                    raise _queue.Empty
            ready = [m for m in heads if m.t_avail <= w.now]
        if not ready:
            raise _queue.Empty
        ready.sort(key=lambda m: m.w)
        m = ready[w.ch.choose(len(ready), "deliver")] if len(ready) > 1 else ready[0]
        self.pending[m.w].pop(0)
        self.got += 1
        w.delivered.append(m)
        w.delivery_order.append(m.w)
        w.progress()
        return m.payload

    def get_nowait(self):
        return self.get(block=False)

    def put(self, obj, block=True, timeout=None):
        raise HarnessUnsupported("parent-side put")

    def empty(self):
        self.world.tick()
        return not any(m.t_avail <= self.world.now for m in self._heads())

    def qsize(self):
        # multiprocessing.Queue.qsize() is a semaphore count: incremented by put() in the producer, decremented by
        # get() in the consumer.  A message that was put but never reached the pipe (producer killed before its
        # feeder thread flushed it) is counted for ever; a message still in the feeder's buffer is counted already.
        self.world.tick()
        return sum(1 for t in self.put_times if t <= self.world.now) - self.got

    def close(self):
        self.closed = True

    def join_thread(self):
        pass

    def cancel_join_thread(self):
        pass

    def undelivered(self):
        return [m for q in self.pending.values() for m in q]

    def __getattr__(self, name):
        raise HarnessUnsupported(f"Queue.{name} is not modelled by SimQueue")

    def buffered_in_producer(self, widx: int) -> bool:
        """True iff some message already put by worker widx has not entered the pipe yet: messages enter the pipe
        in put order and the pipe holds at most plan['pipe_bytes'] unread bytes."""
        cap = self.world.plan.get("pipe_bytes", 65536)
        now = self.world.now
        put = sorted((m for q in self.pending.values() for m in q if m.t_put <= now), key=lambda m: (m.t_put, m.w, m.i))
        used = 0
        for m in put:
            used += msg_size(m)
            if used > cap and m.w == widx:
                return True
        return False


def msg_size(m) -> int:
    if getattr(m, "_size", None) is None:
        try:
            m._size = len(pickle.dumps(m.payload)) + 4
        except Exception:
            m._size = 300
    return m._size


DELAYS = {
    # worker events placed next to the parent's poll boundaries (poll period 1 s): exits right after a get() timed out
    "race": [1000, 0, 1, 2, 3, 5, 7, 999, 1001, 1003, 2000],
    "merge": [0],  # everything available at once: the delivery order is a pure seeded merge
    "jitter": [0, 1, 2, 5, 17, 250],
    "slow": [0, 1000, 5000, 60000],
}


def delay(ch, template: str, what: str) -> int:
    opts = DELAYS.get(template, DELAYS["jitter"])
    return opts[ch.choose(len(opts), what)]


STALE_BASE = 1000  # producer keys of messages left in a long-lived queue by earlier calls (never a worker index)


class detached:
    """Context manager for code that runs outside any call (constructing a MultiprocessingSolver): a Queue created
    there is a SimQueue without a World; `adopt` hands it to the World of each later call."""

    def __enter__(self):
        import nucs.solvers.multiprocessing_solver as M

        self.M = M
        self.had = hasattr(M, "Queue")
        self.saved = getattr(M, "Queue", None)
        M.Queue = lambda maxsize=0: SimQueue(None)
        return self

    def __exit__(self, *a):
        if self.had:
            self.M.Queue = self.saved
        else:
            del self.M.Queue
        return False


def adopt(world: World, parent) -> int:
    """Queues owned by the parent object (attributes, or members of list / tuple / dict attributes)."""
    n = 0
    for v in list(vars(parent).values()):
        members = v if isinstance(v, (list, tuple)) else list(v.values()) if isinstance(v, dict) else [v]
        for q in members:
            if isinstance(q, SimQueue):
                q.rebind(world)
                n += 1
    return n


class patched:
    """Context manager installing a World in nucs.solvers.multiprocessing_solver."""

    def __init__(self, world: World):
        self.world = world

    def __enter__(self):
        import nucs.solvers.multiprocessing_solver as M

        self.M = M
        self.saved = {k: getattr(M, k) for k in ("Process", "Queue") if hasattr(M, k)}
        M.Process = self.world.Process
        M.Queue = self.world.Queue
        self.saved_time = getattr(M, "time", None)
        if self.saved_time is not None:
            M.time = VirtualTime(self.world)
        # a worker that reads a clock (none does on the unchanged tree) reads a simulated one: 1 virtual ms per look
        import nucs.solvers.backtrack_solver as _BS

        self.saved_worker_time = getattr(_BS, "time", None)
        if self.saved_worker_time is not None and hasattr(self.saved_worker_time, "monotonic"):
            _BS.time = WorkerTime()
        else:
            self.saved_worker_time = None
        self._BS = _BS
        # the children of the calling process are part of the simulated deployment too
        import multiprocessing as _mp
        import multiprocessing.process as _mpp

        self.saved_ac = [(_mp, _mp.active_children), (_mpp, _mpp.active_children)]
        _mp.active_children = self.world.active_children
        _mpp.active_children = self.world.active_children
        if hasattr(M, "active_children"):
            self.saved["active_children"] = M.active_children
            M.active_children = self.world.active_children
        for alias in ("multiprocessing", "mp"):
            mod = getattr(M, alias, None)
            if mod is not None and mod is not _mp and hasattr(mod, "active_children"):
                raise HarnessUnsupported(f"{alias}.active_children reached through an unexpected module object")
        return self.world

    def __exit__(self, *a):
        for k, v in self.saved.items():
            setattr(self.M, k, v)
        if self.saved_time is not None:
            self.M.time = self.saved_time
        if self.saved_worker_time is not None:
            self._BS.time = self.saved_worker_time
        for mod, f in self.saved_ac:
            mod.active_children = f
        return False


class WorkerTime:
    """Clock of the worker side (workers are executed eagerly, outside the parent's virtual time line): every look at
    the clock costs one virtual millisecond, sleeping adds the requested time."""

    def __init__(self):
        self.ms = 0

    def time(self):
        self.ms += 1
        return self.ms / 1000.0

    monotonic = time
    perf_counter = time

    def sleep(self, s):
        self.ms += max(0, int(s * 1000))


class VirtualTime:
    def __init__(self, world):
        self.world = world

    def time(self):
        return self.world.now / 1000.0

    monotonic = time
    perf_counter = time

    def sleep(self, s):
        self.world.tick()
        if s > 0:
            self.world.now += int(s * 1000)
            self.world.progress()
