"""Runs one shipped model (E6 / C20, C13 at scale) in one interpreter (compiled by default) and validates every
solution with a definition-level validator written here from the problem statements (never from the models).

Usage: python modelworker.py <repo> <verif root> <json spec>.  Prints one JSON line."""
import itertools
import json
import os
import sys


# ------------------------------------------------------------------------------------------------- validators
def v_queens(sol, spec):
    n = spec["n"]
    q = sol[:n]
    if sorted(q) != list(range(n)):
        return "rows are not a permutation"
    for i in range(n):
        for j in range(i + 1, n):
            if abs(q[i] - q[j]) == j - i:
                return f"queens {i} and {j} attack each other"
    # redundant views must be consistent
    if list(sol[n : 2 * n]) != [q[i] + i for i in range(n)] or list(sol[2 * n : 3 * n]) != [q[i] - i for i in range(n)]:
        return "diagonal views inconsistent"
    return None


def v_latin(sol, spec, colors=None):
    n = spec["n"]
    colors = colors or spec.get("colors") or list(range(n))
    m = [sol[i * n : (i + 1) * n] for i in range(n)]
    g = spec.get("givens")
    if g:
        for i in range(n):
            for j in range(n):
                if g[i][j] in colors and m[i][j] != g[i][j]:
                    return f"given at ({i},{j}) not respected"
    for i in range(n):
        if sorted(m[i]) != sorted(colors):
            return f"row {i} is not a permutation of the colors"
        if sorted(m[k][i] for k in range(n)) != sorted(colors):
            return f"column {i} is not a permutation of the colors"
    return None


def v_latin_rc(sol, spec):
    n = spec["n"]
    e = v_latin(sol, spec)
    if e:
        return e
    color = lambda i, j: sol[i * n + j]
    row = lambda c, j: sol[n * n + c * n + j]
    col = lambda i, c: sol[2 * n * n + i * n + c]
    for i in range(n):
        for j in range(n):
            c = color(i, j)
            if row(c, j) != i or col(i, c) != j:
                return f"dual models inconsistent at cell ({i},{j})"
    return None


def v_qg5(sol, spec):
    n = spec["n"]
    e = v_latin_rc(sol, spec)
    if e:
        return e
    op = lambda a, b: sol[a * n + b]
    for a in range(n):
        if op(a, a) != a:
            return f"not idempotent at {a}"
        for b in range(n):
            if op(op(op(b, a), b), b) != a:
                return f"((b*a)*b)*b != a for a={a}, b={b}"
    return None


def v_quasigroup(sol, spec):
    n = spec["n"]
    e = v_latin_rc(sol, spec)
    if e:
        return e
    for a in range(n):
        if sol[a * n + a] != a:
            return f"not idempotent: {a}*{a}={sol[a * n + a]}"
    return None


def v_magic_square(sol, spec):
    n = spec["n"]
    if sorted(sol[: n * n]) != list(range(n * n)):
        return "cells are not a permutation of 0..n^2-1"
    m = [sol[i * n : (i + 1) * n] for i in range(n)]
    s = n * (n * n - 1) // 2
    for i in range(n):
        if sum(m[i]) != s or sum(m[k][i] for k in range(n)) != s:
            return f"row/column {i} does not sum to {s}"
    if sum(m[i][i] for i in range(n)) != s or sum(m[i][n - 1 - i] for i in range(n)) != s:
        return "a diagonal does not sum to the magic constant"
    return None


def v_magic_sequence(sol, spec):
    n = spec["n"]
    x = sol[:n]
    for i in range(n):
        if x[i] != sum(1 for v in x if v == i):
            return f"x[{i}]={x[i]} is not the number of occurrences of {i}"
    return None


def v_golomb(sol, spec):
    n = spec["n"]

    def idx(i, j):
        return i * n - (i * (i + 1)) // 2 + j - i - 1

    marks = [0] + [sol[idx(0, j)] for j in range(1, n)]
    if any(b <= a for a, b in zip(marks, marks[1:])):
        return "marks are not increasing"
    d = []
    for i in range(n - 1):
        for j in range(i + 1, n):
            if sol[idx(i, j)] != marks[j] - marks[i]:
                return f"distance variable ({i},{j}) is not the difference of the marks"
            d.append(marks[j] - marks[i])
    if len(set(d)) != len(d):
        return "two distances are equal"
    return None


def v_bibd(sol, spec):
    v, b, r, k, l = spec["v"], spec["b"], spec["r"], spec["k"], spec["l"]
    m = [sol[i * b : (i + 1) * b] for i in range(v)]
    if any(x not in (0, 1) for row in m for x in row):
        return "not a 0/1 matrix"
    if any(sum(row) != r for row in m):
        return "a row does not sum to r"
    if any(sum(m[i][j] for i in range(v)) != k for j in range(b)):
        return "a column does not sum to k"
    for i1 in range(v):
        for i2 in range(i1 + 1, v):
            if sum(m[i1][j] * m[i2][j] for j in range(b)) != l:
                return f"rows {i1},{i2} do not meet in lambda blocks"
    return None


def v_schur(sol, spec):
    n = spec["n"]
    box = []
    for x in range(n):
        t = sol[3 * x : 3 * x + 3]
        if sorted(t) != [0, 0, 1]:
            return f"ball {x + 1} is not in exactly one box"
        box.append(list(t).index(1))
    for x in range(1, n + 1):
        for y in range(1, n + 1):
            z = x + y
            if z <= n and box[x - 1] == box[y - 1] == box[z - 1]:
                return f"{x}+{y}={z} all in box {box[x - 1]}"
    return None


def v_sports(sol, spec):
    n = spec["n"]
    periods, weeks = n // 2, n - 1
    team = lambda p, w, s: sol[p * (weeks * 2) + w * 2 + s]
    seen = set()
    for w in range(weeks):
        playing = [team(p, w, s) for p in range(periods) for s in range(2)]
        if sorted(playing) != list(range(n)):
            return f"week {w}: not every team plays exactly once"
        for p in range(periods):
            a, b = team(p, w, 0), team(p, w, 1)
            if a == b:
                return "a team plays itself"
            key = (min(a, b), max(a, b))
            if key in seen:
                return f"teams {key} meet twice"
            seen.add(key)
    if len(seen) != n * (n - 1) // 2:
        return "some pair never meets"
    for p in range(periods):
        for t in range(n):
            if sum(1 for w in range(weeks) for s in range(2) if team(p, w, s) == t) > 2:
                return f"team {t} plays more than twice in period {p}"
    return None


def v_knapsack(sol, spec):
    w, vol, cap = spec["weights"], spec["volumes"], spec["capacity"]
    n = len(w)
    x = sol[:n]
    if any(v not in (0, 1) for v in x):
        return "not 0/1"
    if sum(a * b for a, b in zip(vol, x)) > cap:
        return "capacity exceeded"
    if sum(a * b for a, b in zip(w, x)) != sol[n]:
        return "weight variable is not the total weight"
    return None


def v_tsp(sol, spec):
    c = spec["costs"]
    n = len(c)
    succ = sol[:n]
    cur, seen = 0, 0
    for _ in range(n):
        cur = succ[cur]
        seen += 1
        if cur == 0:
            break
    if cur != 0 or seen != n or sorted(succ) != list(range(n)):
        return "successors do not form a Hamiltonian circuit"
    if [c[i][succ[i]] for i in range(n)] != list(sol[n : 2 * n]):
        return "cost variables do not match the arcs"
    if sum(sol[n : 2 * n]) != sol[2 * n]:
        return "total cost is not the sum"
    return None


def v_circuit(sol, spec):
    n = spec["n"]
    succ = sol[:n]
    cur, seen = 0, 0
    for _ in range(n):
        cur = succ[cur]
        seen += 1
        if cur == 0:
            break
    if cur != 0 or seen != n or sorted(succ) != list(range(n)):
        return "successors do not form a Hamiltonian circuit"
    return None


def v_sudoku(sol, spec):
    g = spec["givens"]
    m = [sol[i * 9 : (i + 1) * 9] for i in range(9)]
    for i in range(9):
        if sorted(m[i]) != list(range(1, 10)) or sorted(m[k][i] for k in range(9)) != list(range(1, 10)):
            return f"row/column {i} is not a permutation of 1..9"
    for bi in range(3):
        for bj in range(3):
            if sorted(m[3 * bi + a][3 * bj + b] for a in range(3) for b in range(3)) != list(range(1, 10)):
                return f"box ({bi},{bj}) is not a permutation of 1..9"
    for i in range(9):
        for j in range(9):
            if g[i][j] in range(1, 10) and m[i][j] != g[i][j]:
                return f"given at ({i},{j}) not respected"
    return None


ALPHA_WORDS = {
    "BALLET": 45, "CELLO": 43, "CONCERT": 74, "FLUTE": 30, "FUGUE": 50, "GLEE": 66, "JAZZ": 58, "LYRE": 47, "OBOE": 53,
    "OPERA": 65, "POLKA": 59, "QUARTET": 50, "SAXOPHONE": 134, "SCALE": 51, "SOLO": 37, "SONG": 61, "SOPRANO": 82,
    "THEME": 72, "VIOLIN": 100, "WALTZ": 34,
}


def v_alpha(sol, spec):
    val = {chr(65 + i): sol[i] for i in range(26)}
    if sorted(val.values()) != list(range(1, 27)):
        return "letters are not a permutation of 1..26"
    for w, t in ALPHA_WORDS.items():
        if sum(val[ch] for ch in w) != t:
            return f"{w} does not sum to {t}"
    return None


def v_donald(sol, spec):
    L = dict(zip("ABDEGLNORT", sol[:10]))
    if sorted(L.values()) != list(range(10)):
        return "letters are not all different digits"
    num = lambda w: int("".join(str(L[c]) for c in w))
    if num("DONALD") + num("GERALD") != num("ROBERT"):
        return "DONALD+GERALD != ROBERT"
    return None


VALIDATORS = {
    "queens": v_queens, "latin": v_latin, "latin_rc": v_latin_rc, "qg5": v_qg5, "quasigroup": v_quasigroup, "magic_square": v_magic_square,
    "magic_sequence": v_magic_sequence, "golomb": v_golomb, "bibd": v_bibd, "schur": v_schur, "sports": v_sports,
    "knapsack": v_knapsack, "tsp": v_tsp, "circuit": v_circuit, "sudoku": v_sudoku, "alpha": v_alpha, "donald": v_donald,
}


# ------------------------------------------------------------------------------------- brute force from definitions
def brute_count(spec):
    name = spec["model"]
    if name == "schur":
        n = spec["n"]
        c = 0
        for box in itertools.product(range(3), repeat=n):
            ok = True
            for x in range(1, n + 1):
                for y in range(x, n + 1):
                    z = x + y
                    if z <= n and box[x - 1] == box[y - 1] == box[z - 1]:
                        ok = False
                        break
                if not ok:
                    break
            c += ok
        return c
    if name == "bibd":
        v, b, r, k, l = spec["v"], spec["b"], spec["r"], spec["k"], spec["l"]
        rows = [t for t in itertools.product((0, 1), repeat=b) if sum(t) == r]
        c = 0

        def rec(chosen):
            nonlocal c
            if len(chosen) == v:
                if all(sum(row[j] for row in chosen) == k for j in range(b)):
                    c += 1
                return
            for t in rows:
                if all(sum(a * bb for a, bb in zip(t, o)) == l for o in chosen):
                    rec(chosen + [t])

        rec([])
        return c
    if name == "magic_sequence":
        n = spec["n"]
        c = 0
        for x in itertools.product(range(n + 1), repeat=n):
            if sum(x) == n and all(x[i] == x.count(i) for i in range(n)):
                c += 1
        return c
    if name == "knapsack":
        w, vol, cap = spec["weights"], spec["volumes"], spec["capacity"]
        best = 0
        for x in itertools.product((0, 1), repeat=len(w)):
            if sum(a * b for a, b in zip(vol, x)) <= cap:
                best = max(best, sum(a * b for a, b in zip(w, x)))
        return best
    if name == "tsp":
        c = spec["costs"]
        n = len(c)
        best = None
        for perm in itertools.permutations(range(1, n)):
            tour = (0,) + perm + (0,)
            cost = sum(c[a][b] for a, b in zip(tour, tour[1:]))
            best = cost if best is None else min(best, cost)
        return best
    if name == "sports":  # schedules from the definition (a match is an unordered pair), n = 4 only
        n = spec["n"]
        if n != 4:
            return None
        teams = list(range(n))
        matchings = [[(0, 1), (2, 3)], [(0, 2), (1, 3)], [(0, 3), (1, 2)]]
        weeks = [list(p) for m in matchings for p in itertools.permutations(m)]  # period 0 match, period 1 match
        c = 0
        for sched in itertools.product(weeks, repeat=n - 1):
            pairs = [pr for wk in sched for pr in wk]
            if len(set(pairs)) != len(pairs) or len(pairs) != n * (n - 1) // 2:
                continue
            ok = True
            for p in range(n // 2):
                for t in teams:
                    if sum(1 for wk in sched if t in wk[p]) > 2:
                        ok = False
            c += ok
        return c
    if name == "qg5":  # idempotent latin squares satisfying ((b*a)*b)*b = a, from the definition
        n = spec["n"]
        c = 0
        perms = list(itertools.permutations(range(n)))

        def rec5(rows):
            nonlocal c
            i = len(rows)
            if i == n:
                op = lambda a, b: rows[a][b]
                if all(op(op(op(b, a), b), b) == a for a in range(n) for b in range(n)):
                    c += 1
                return
            for p in perms:
                if p[i] == i and all(p[j] != r[j] for r in rows for j in range(n)):
                    rec5(rows + [p])

        rec5([])
        return c
    if name == "latin":  # latin squares over the given colors respecting the givens
        n = spec["n"]
        colors = spec.get("colors") or list(range(n))
        givens = spec.get("givens")
        c = 0
        perms = list(itertools.permutations(colors))

        def recl(rows):
            nonlocal c
            i = len(rows)
            if i == n:
                c += 1
                return
            for p in perms:
                if givens and any(givens[i][j] in colors and givens[i][j] != p[j] for j in range(n)):
                    continue
                if all(p[j] != r[j] for r in rows for j in range(n)):
                    recl(rows + [p])

        recl([])
        return c
    if name == "quasigroup":  # idempotent latin squares, from the definition
        n = spec["n"]
        c = 0
        perms = list(itertools.permutations(range(n)))

        def rec(rows):
            nonlocal c
            i = len(rows)
            if i == n:
                c += 1
                return
            for p in perms:
                if p[i] == i and all(p[j] != r[j] for r in rows for j in range(n)):
                    rec(rows + [p])

        rec([])
        return c
    if name == "circuit":
        import math

        return math.factorial(spec["n"] - 1)
    return None


# ------------------------------------------------------------------------------------------------------- models
def build(spec):
    name = spec["model"]
    sym = spec.get("sym", True)
    if name == "queens":
        from nucs.examples.queens.queens_problem import QueensProblem

        return QueensProblem(spec["n"])
    if name == "latin":
        from nucs.problems.latin_square_problem import LatinSquareProblem

        return LatinSquareProblem(spec.get("colors") or list(range(spec["n"])), spec.get("givens"))
    if name == "latin_rc":
        from nucs.problems.latin_square_problem import LatinSquareRCProblem

        return LatinSquareRCProblem(spec["n"])
    if name == "qg5":
        from nucs.examples.quasigroup.quasigroup_problem import Quasigroup5Problem

        return Quasigroup5Problem(spec["n"], sym)
    if name == "quasigroup":
        from nucs.examples.quasigroup.quasigroup_problem import QuasigroupProblem

        return QuasigroupProblem(spec["n"], sym)
    if name == "magic_square":
        from nucs.examples.magic_square.magic_square_problem import MagicSquareProblem

        return MagicSquareProblem(spec["n"], sym)
    if name == "magic_sequence":
        from nucs.examples.magic_sequence.magic_sequence_problem import MagicSequenceProblem

        return MagicSequenceProblem(spec["n"])
    if name == "golomb":
        from nucs.examples.golomb.golomb_problem import GolombProblem

        return GolombProblem(spec["n"], sym)
    if name == "bibd":
        from nucs.examples.bibd.bibd_problem import BIBDProblem

        return BIBDProblem(spec["v"], spec["b"], spec["r"], spec["k"], spec["l"], sym)
    if name == "schur":
        from nucs.examples.schur_lemma.schur_lemma_problem import SchurLemmaProblem

        return SchurLemmaProblem(spec["n"], sym)
    if name == "sports":
        from nucs.examples.sports_tournament_scheduling.sports_tournament_scheduling_problem import (
            SportsTournamentSchedulingProblem,
        )

        return SportsTournamentSchedulingProblem(spec["n"], sym)
    if name == "knapsack":
        from nucs.examples.knapsack.knapsack_problem import KnapsackProblem

        return KnapsackProblem(spec["weights"], spec["volumes"], spec["capacity"])
    if name == "tsp":
        from nucs.examples.tsp.tsp_problem import TSPProblem

        return TSPProblem(spec["costs"])
    if name == "circuit":
        from nucs.problems.circuit_problem import CircuitProblem

        return CircuitProblem(spec["n"])
    if name == "sudoku":
        from nucs.examples.sudoku.sudoku_problem import SudokuProblem

        return SudokuProblem(spec["givens"])
    if name == "alpha":
        from nucs.examples.alpha.alpha_problem import AlphaProblem

        return AlphaProblem()
    if name == "donald":
        from nucs.examples.donald.donald_problem import DonaldProblem

        return DonaldProblem()
    raise ValueError(name)


def objective(spec, problem):
    name = spec["model"]
    if name == "golomb":
        return ("min", int(problem.length_idx))
    if name == "knapsack":
        return ("max", int(problem.weight))
    if name == "tsp":
        return ("min", problem.shr_domain_nb - 1)
    return None


def run_example_program(spec, out):
    """The shipped example PROGRAM (python -m nucs.examples.<x> <argv>) executed as shipped - its own solver
    configuration, decision domains, heuristic parameters, registration of a custom consistency algorithm, split over
    processors - with the public solver entry points wrapped by recorders (behaviour preserving), the multiprocessing
    solver running against the simulated processes, and everything the program's solver delivered judged by the
    definition-level validator of the model."""
    import ast
    import contextlib
    import io
    import runpy

    import nucs.solvers.multiprocessing_solver as M
    from nucs.solvers.backtrack_solver import BacktrackSolver
    from sim import mpsim
    from sim.kernel import Choices

    rec = {}

    def wrap_gen(cls):
        orig = cls.solve

        def solve(self):
            for x in orig(self):
                rec.setdefault(id(self), {"yielded": [], "returned": []})["yielded"].append([int(v) for v in x])
                yield x

        cls.solve = solve

    def wrap_opt(cls, name):
        orig = getattr(cls, name)

        def opt(self, variable_idx):
            r = orig(self, variable_idx)
            rec.setdefault(id(self), {"yielded": [], "returned": []})["returned"].append(
                (name, int(variable_idx), None if r is None else [int(v) for v in r]))
            return r

        setattr(cls, name, opt)

    for cls in (BacktrackSolver, M.MultiprocessingSolver):
        wrap_gen(cls)
        wrap_opt(cls, "minimize")
        wrap_opt(cls, "maximize")
    ch = Choices(seed=spec.get("seed", 0))
    plan = {"template": ["merge", "jitter", "slow", "race"][ch.choose(4, "template")], "faults": {}, "start": {},
            "late_pickle": ch.chance(1, 2, "late"), "opcost": ch.choose(3, "opcost")}

    def run_worker(stream, clone, method, args, kwargs):
        getattr(clone, method)(*args, **kwargs)

    world = mpsim.World(ch, plan, run_worker, {})
    argv0 = sys.argv
    buf = io.StringIO()
    sys.argv = [spec["main"]] + [str(a) for a in spec.get("argv", [])] + ["--log_level", "ERROR"]
    try:
        with mpsim.patched(world), contextlib.redirect_stdout(buf):
            g = runpy.run_module(spec["main"], run_name="__main__")
    finally:
        sys.argv = argv0
    solver, problem = g.get("solver"), g.get("problem")
    if isinstance(spec.get("costs"), str):
        from nucs.examples.tsp.tsp_instances import TSP_INSTANCES

        spec["costs"] = [[int(c) for c in row] for row in TSP_INSTANCES[spec["costs"]]]
    if solver is None or problem is None:
        raise RuntimeError("the example program defines no `solver` / `problem`")
    mine = rec.get(id(solver), {"yielded": [], "returned": []})
    validator = VALIDATORS[spec["model"]]
    sols = mine["yielded"]
    check = list(sols)
    out["mode"] = "enumeration"
    if mine["returned"]:
        name, var, r = mine["returned"][-1]
        obj = objective(spec, problem)
        out["mode"] = "optimisation"
        out["optimum"] = None if r is None else r[obj[1] if obj else var]
        out["objective_as_called"] = [name, var]
        out["objective_expected"] = None if obj is None else [{"min": "minimize", "max": "maximize"}[obj[0]], obj[1]]
        check = [] if r is None else [r]
        sols = check
    bad = None
    for x in check:
        e = validator(x, spec)
        if e:
            bad = {"solution": x[:60], "why": e}
            break
    out["count"] = len(sols)
    out["distinct"] = len(set(map(tuple, sols)))
    out["invalid"] = bad
    out["processes_started"] = len(world.procs)
    out["delivery_order"] = world.delivery_order[:40]
    text = buf.getvalue()
    out["printed_lines"] = len(text.splitlines())
    import re

    m = re.search(r"\{[^{}]*SOLVER_SOLUTION_NB[^{}]*\}", text, re.S)  # the statistics the program printed
    if m:
        try:
            out["stats"] = {k: int(v) for k, v in ast.literal_eval(m.group(0)).items()}
        except Exception:
            pass
    if spec.get("brute"):
        out["brute"] = brute_count(spec)


def main():
    repo, root, spec = sys.argv[1], sys.argv[2], json.loads(sys.argv[3])
    sys.path.insert(0, root)
    sys.path.insert(0, repo)
    import logging

    logging.disable(logging.CRITICAL)
    out = {"outcome": "ok"}
    try:
        from nucs.solvers.backtrack_solver import BacktrackSolver

        cfg = spec.get("cfg", {})
        kw = dict(consistency_alg_idx=cfg.get("cons", 0), var_heuristic_idx=cfg.get("var_h", 0),
                  dom_heuristic_idx=cfg.get("dom_h", 0), log_level="ERROR")
        if spec["model"] == "golomb" and cfg.get("golomb_alg"):
            from nucs.examples.golomb.golomb_problem import golomb_consistency_algorithm
            from nucs.solvers.consistency_algorithms import register_consistency_algorithm

            kw["consistency_alg_idx"] = register_consistency_algorithm(golomb_consistency_algorithm)

        def mk(problem):
            k = dict(kw)
            if spec["model"] == "tsp":
                n = len(spec["costs"])
                k["decision_domains"] = list(range(n))
                if cfg.get("tsp_heuristics"):
                    from nucs.heuristics.heuristics import DOM_HEURISTIC_MIN_COST, VAR_HEURISTIC_MAX_REGRET

                    k.update(var_heuristic_idx=VAR_HEURISTIC_MAX_REGRET, var_heuristic_params=spec["costs"],
                             dom_heuristic_idx=DOM_HEURISTIC_MIN_COST, dom_heuristic_params=spec["costs"])
            if spec.get("decision"):
                k["decision_domains"] = spec["decision"]
            return BacktrackSolver(problem, **k)

        def apply_rewrite(problem):
            rw = spec.get("rewrite")
            if not rw:  # C13 at scale: meaning-preserving rewrites of a shipped model
                return
            import random

            from nucs.propagators.propagators import ALG_AFFINE_LEQ, ALG_DUMMY

            rng = random.Random(rw["seed"])
            nvars = len(problem.dom_indices_lst)
            if rw.get("duplicate") and problem.propagators:
                for _ in range(rw["duplicate"]):
                    vs, alg, params = problem.propagators[rng.randrange(len(problem.propagators))]
                    problem.add_propagator((list(vs), alg, list(params)))
            if rw.get("always_true"):
                a, b = rng.randrange(nvars), rng.randrange(nvars)
                problem.add_propagator(([a, b], ALG_DUMMY, []))
                problem.add_propagator(([a], ALG_AFFINE_LEQ, [1, 10 ** 6]))
            if rw.get("shuffle"):
                rng.shuffle(problem.propagators)

        if spec.get("main"):
            run_example_program(spec, out)
            print(json.dumps(out), flush=True)
            os._exit(0)
        problem = build(spec)
        if spec.get("fix_solution") is not None:
            # "the model accepts a known valid object": every variable is fixed to the object's value, within the
            # model's OWN domains (they are never enlarged); the solver must then report exactly this one solution
            fs = spec["fix_solution"]
            for v, val in enumerate(fs):
                d = problem.dom_indices_lst[v]
                sv = val - problem.dom_offsets_lst[v]
                lo, hi = problem.shr_domains_lst[d]
                if not (lo <= sv <= hi):
                    out["rejected_by_domains"] = f"variable {v} = {val} is outside the model's domain [{lo + problem.dom_offsets_lst[v]},{hi + problem.dom_offsets_lst[v]}]"
                    break
                problem.shr_domains_lst[d] = [sv, sv]
            if out.get("rejected_by_domains"):
                out["count"] = 0
                out["distinct"] = 0
                out["invalid"] = None
                print(json.dumps(out), flush=True)
                os._exit(0)
        if spec.get("fix_many") is not None:
            # many fully instantiated candidates (valid objects and near misses) offered to the model in one interpreter:
            # the solver must report exactly the valid ones; the search is trivial, so any instance size is within reach
            validator = VALIDATORS[spec["model"]]
            sols, bad, refused = [], None, 0
            expected = 0  # candidates that cover every variable are judged by the definition-level validator
            for fs in spec["fix_many"]:
                pb = build(spec)
                if expected is not None and len(fs) == len(pb.dom_indices_lst):
                    expected += 1 if validator([int(v) for v in fs], spec) is None else 0
                else:
                    expected = None
                ok = True
                for v, val in enumerate(fs):
                    d = pb.dom_indices_lst[v]
                    sv = val - pb.dom_offsets_lst[v]
                    lo, hi = pb.shr_domains_lst[d]
                    if not (lo <= sv <= hi):
                        ok = False
                        break
                    pb.shr_domains_lst[d] = [sv, sv]
                if not ok:
                    refused += 1
                    continue
                apply_rewrite(pb)
                for x in mk(pb).solve():
                    x = [int(v) for v in x]
                    sols.append(x)
                    e = validator(x, spec)
                    if e and bad is None:
                        bad = {"solution": x[:60], "why": e}
            out.update(count=len(sols), distinct=len(set(map(tuple, sols))), invalid=bad, refused_by_domains=refused,
                       expected_by_validator=expected)
            print(json.dumps(out), flush=True)
            os._exit(0)
        apply_rewrite(problem)
        validator = VALIDATORS[spec["model"]]
        nw = spec.get("workers", 0)
        op = spec.get("op", "find_all")
        obj = objective(spec, problem)
        sols = []
        result = None
        if nw == 0:
            s = mk(problem)
            if op == "find_all":
                limit = spec.get("limit", 10 ** 9)
                for x in s.solve():
                    sols.append([int(v) for v in x])
                    if len(sols) >= limit:
                        break
            else:
                result = s.minimize(obj[1]) if obj[0] == "min" else s.maximize(obj[1])
            out["stats"] = {k: int(v) for k, v in s.get_statistics().items()}
        else:
            from nucs.solvers.multiprocessing_solver import MultiprocessingSolver
            from sim import mpsim
            from sim.kernel import Choices

            ch = Choices(seed=spec.get("seed", 0))
            # the split variable is drawn without knowing the size of the model: reduce it to an existing variable
            parts = problem.split(nw, spec.get("split_var", 0) % max(1, len(problem.dom_indices_lst)))
            solvers = [mk(p) for p in parts]
            plan = {"template": ["merge", "jitter", "slow", "race"][ch.choose(4, "template")], "faults": {}, "start": {},
                    "late_pickle": ch.chance(1, 2, "late"), "opcost": ch.choose(3, "opcost")}

            def run_worker(stream, clone, method, args, kwargs):
                getattr(clone, method)(*args, **kwargs)

            world = mpsim.World(ch, plan, run_worker, {})
            with mpsim.detached():
                parent = MultiprocessingSolver(solvers, log_level="ERROR")
            mpsim.adopt(world, parent)
            with mpsim.patched(world):
                if op == "find_all":
                    for x in parent.solve():
                        sols.append([int(v) for v in x])
                else:
                    result = parent.minimize(obj[1]) if obj[0] == "min" else parent.maximize(obj[1])
            out["stats"] = {k: int(v) for k, v in parent.get_statistics().items()}
            out["delivery_order"] = world.delivery_order[:40]
            out["parts"] = len(parts)
        check = sols if op == "find_all" else ([[int(v) for v in result]] if result is not None else [])
        bad = None
        for x in check:
            e = validator(x, spec)
            if e:
                bad = {"solution": x[:60], "why": e}
                break
        out["count"] = len(sols)
        out["distinct"] = len(set(map(tuple, sols)))
        out["invalid"] = bad
        if op != "find_all":
            out["optimum"] = None if result is None else int(result[obj[1]])
        if spec.get("brute"):
            out["brute"] = brute_count(spec)
        if spec.get("keep_solutions"):
            out["solutions"] = sorted(sols)[:5000]
    except BaseException as e:  # noqa
        import traceback

        out = {"outcome": "error", "error": f"{type(e).__name__}: {str(e)[:300]}", "tb": traceback.format_exc()[-600:]}
    print(json.dumps(out), flush=True)
    os._exit(0)


if __name__ == "__main__":
    main()
