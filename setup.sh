#!/bin/bash
# Offline setup: nothing to build for the interpreted families; warm the per-tree numba cache for compiled families.
set -e
cd "$(dirname "$0")"
mkdir -p evidence replays .cache
/venv/bin/python -c "import numba, numpy; print('numba', numba.__version__, 'numpy', numpy.__version__)"
exit 0
